#!/usr/bin/env python3
"""Translate the Rust keyword list of zlink-codegen (fn is_rust_keyword in src/codegen.rs) into
coq/gen/Keywords.v, together with the reference list of strict and reserved Rust 2021 keywords
(from the Rust Reference, hard-coded here) and the list of identifiers that cannot be written as
raw identifiers. Fails loudly (exit 2) when the construct is not found."""
import os, re, sys
REPO = os.environ.get("ZV_REPO", "/repo")
VERIF = os.path.dirname(os.path.dirname(os.path.abspath(__file__)))
OUT = os.path.join(VERIF, "coq", "gen", "Keywords.v")

# The Rust Reference, "Keywords": strict (2021 incl. async/await/dyn), reserved (incl. try), in the
# order the reference lists them.
STRICT = ("as break const continue crate else enum extern false fn for if impl in let loop match mod "
          "move mut pub ref return self Self static struct super trait true type unsafe use where while "
          "async await dyn").split()
RESERVED = "abstract become box do final macro override priv typeof unsized virtual yield try".split()
# The Rust Reference, "Identifiers": `crate`, `self`, `super`, `Self` (and `_`) cannot be raw identifiers.
NOT_RAW = ["crate", "self", "super", "Self"]


def die(msg):
    sys.stderr.write("translate/keywords: " + msg + "\n")
    print("keywords: FAILED " + msg)
    sys.exit(2)


def string_list(src, fn_name):
    m = re.search(r"fn\s+%s\s*\(\s*\w+\s*:\s*&str\s*\)\s*->\s*bool\s*\{(.*?)\n\}" % fn_name, src, re.S)
    if not m:
        return None
    body = m.group(1)
    a = re.search(r"\[(.*?)\]\s*\.contains\(\s*&\w+\s*\)", body, re.S)
    if not a:
        mm = re.search(r"matches!\s*\(\s*\w+\s*,(.*?)\)\s*$", body.strip(), re.S)
        if not mm:
            return None
        return re.findall(r'"([^"]*)"', mm.group(1))
    return re.findall(r'"([^"]*)"', a.group(1))


def extract():
    path = os.path.join(REPO, "zlink-codegen/src/codegen.rs")
    if not os.path.exists(path):
        die("zlink-codegen/src/codegen.rs not found")
    src = open(path).read()
    kws = string_list(src, "is_rust_keyword")
    if not kws or len(kws) < 10:
        die("fn is_rust_keyword(&str) -> bool with a string list was not found in codegen.rs")
    # optional second list: identifiers the generator knows it cannot escape with r#
    unraw = string_list(src, "is_unrawable_keyword") or []
    return kws, unraw


def string_literals(src):
    """The string literals of the non-test part of codegen.rs: a small scanner that knows line comments,
    char literals / lifetimes, raw strings and ordinary strings; `{{` / `}}` of format strings undone."""
    body = src.split("#[cfg(test)]")[0]
    out, i, n = [], 0, len(body)
    while i < n:
        c = body[i]
        if body.startswith("//", i):
            j = body.find("\n", i); i = n if j < 0 else j
        elif c == "r" and re.match(r'r#*"', body[i:]) and (i == 0 or not (body[i - 1].isalnum() or body[i - 1] == "_")):
            h = len(re.match(r'r(#*)"', body[i:]).group(1))
            j = body.find('"' + "#" * h, i + 2 + h)
            out.append(body[i + 2 + h:j]); i = j + 1 + h
        elif c == '"':
            j, buf = i + 1, []
            while j < n and body[j] != '"':
                if body[j] == "\\":
                    buf.append({"n": "\n", "t": "\t"}.get(body[j + 1], body[j + 1])); j += 2
                else:
                    buf.append(body[j]); j += 1
            out.append("".join(buf)); i = j + 1
        elif c == "'":
            m = re.match(r"'(?:\\.|[^'\\])'", body[i:])
            i += len(m.group(0)) if m else 1
        else:
            i += 1
    return [l.replace("{{", "{").replace("}}", "}") for l in out]


def unqualified_uses(src):
    """Type-namespace items the EMITTED module text refers to without a path, read off the string
    literals of codegen.rs: generic uses `Name<` not preceded by `::`, the names imported by an emitted
    `use a::{X, Y};` / `use a::X;` that serde or zlink export as a type or trait (a derive macro alone
    lives in the macro namespace), and literals that are exactly one capitalised identifier and are
    produced by the type-mapping functions (`"String".to_string()`)."""
    uses = []
    body = src.split("#[cfg(test)]")[0]
    for lit in string_literals(src):
        for m in re.finditer(r"(?<![:\w])([A-Z][A-Za-z0-9]*)<", lit):
            uses.append(m.group(1))
        m = re.match(r"\s*use\s+([a-z_:]+)::\{([^}]*)\};", lit)
        if m and m.group(1) == "serde":
            uses += [x.strip() for x in m.group(2).split(",") if re.fullmatch(r"[A-Z]\w*", x.strip())]
    for m in re.finditer(r'"([A-Z][A-Za-z0-9]*)"\s*\.to_string\(\)', body):
        uses.append(m.group(1))
    return sorted(set(uses))


def main():
    kws, unraw = extract()
    src = open(os.path.join(REPO, "zlink-codegen/src/codegen.rs")).read()
    unq = string_list(src, "is_used_unqualified") or []
    uses = unqualified_uses(src)

    def ql(l):
        return "[" + "; ".join('"%s"' % x for x in l) + "]"
    txt = """(* GENERATED by translate/keywords.py from zlink-codegen/src/codegen.rs (fn is_rust_keyword,
   fn is_unrawable_keyword) — do not edit. The reference lists are from the Rust Reference. *)
From Coq Require Import String List.
Import ListNotations.
Open Scope string_scope.

(* the generator's list: identifiers it escapes *)
Definition generator_keywords : list string :=
  %s.

(* the generator's list of keywords it cannot write as r#ident (empty when the function is absent) *)
Definition generator_unrawable : list string :=
  %s.

(* the generator's list of custom-type identifiers that get a trailing underscore because the
   generated code refers to an item of that name without a path (fn is_used_unqualified; empty when
   the function is absent) *)
Definition generator_unqualified : list string :=
  %s.

(* type-namespace items the EMITTED module text refers to without a path, read off the string
   literals of codegen.rs (`Name<`, `use serde::{..}`, `"Name".to_string()`) *)
Definition emitted_unqualified_uses : list string :=
  %s.

(* Rust Reference: strict keywords (edition 2021) *)
Definition strict_keywords : list string :=
  %s.

(* Rust Reference: reserved keywords (edition 2021, incl. try) *)
Definition reserved_keywords : list string :=
  %s.

Definition reference_keywords : list string := strict_keywords ++ reserved_keywords.

(* Rust Reference: keywords that cannot be raw identifiers *)
Definition not_raw_keywords : list string :=
  %s.
""" % (ql(kws), ql(unraw), ql(unq), ql(uses), ql(STRICT), ql(RESERVED), ql(NOT_RAW))
    os.makedirs(os.path.dirname(OUT), exist_ok=True)
    old = open(OUT).read() if os.path.exists(OUT) else None
    if old != txt:
        open(OUT, "w").write(txt)
    missing = [k for k in STRICT + RESERVED if k not in kws]
    print("keywords: generator=%d unrawable=%d reference=%d missing_from_generator=%s unqualified=%s emitted_uses=%s" % (
        len(kws), len(unraw), len(STRICT + RESERVED), ",".join(missing) or "-", ",".join(unq) or "-", ",".join(uses) or "-"))


if __name__ == "__main__":
    main()
