#!/usr/bin/env python3
"""Translate the *declarative* envelope types of zlink-core — the items whose wire behaviour is
decided by serde's derive and therefore by the declaration alone — into coq/gen/Decls.v:

  reply.rs                 pub struct Reply<Params> { .. }   (+ does `impl Deserialize for NoError` refuse everything?)
  varlink_service/api.rs   pub enum Method<'a> { .. }        (#[serde(tag, content)], renames, deserialize_with)
                           fn no_parameters                  (which Visitor methods it implements)
                           pub enum Error { .. }             (#[derive(ReplyError)], #[zlink(interface = ..)])

For every field: wire name (serde rename applied), type text (white space and lifetimes removed), the
remaining serde attributes as (key, value) pairs in source order. coq/Shapes/DeclTie.v interprets
these declarations as shapes and proves them equal to the hand-written shapes the C04/C05 theorems
are about, so an edit of a declaration (an attribute dropped, a member renamed, a field or variant
added, removed or reordered) breaks a proof obligation instead of going unnoticed.
Fails loudly (exit 2) when an item is not found."""
import os, re, sys
REPO = os.environ.get("ZV_REPO", "/repo")
VERIF = os.path.dirname(os.path.dirname(os.path.abspath(__file__)))
OUT = os.path.join(VERIF, "coq", "gen", "Decls.v")


def die(msg):
    sys.stderr.write("translate/decls: " + msg + "\n")
    print("decls: FAILED " + msg)
    sys.exit(2)


def strip_comments(src):
    """Remove // comments (incl. doc comments) and /* */ comments, keeping string literals."""
    out, i, n = [], 0, len(src)
    while i < n:
        c = src[i]
        if c == '"':
            j = i + 1
            while j < n and src[j] != '"':
                j += 2 if src[j] == "\\" else 1
            out.append(src[i:j + 1]); i = j + 1
        elif src.startswith("//", i):
            j = src.find("\n", i)
            i = n if j < 0 else j
        elif src.startswith("/*", i):
            j = src.find("*/", i + 2)
            i = n if j < 0 else j + 2
        else:
            out.append(c); i += 1
    return "".join(out)


OPEN, CLOSE = "([{", ")]}"


def matching(src, i):
    """src[i] is an opening bracket; index of its partner (strings respected)."""
    depth, n = 0, len(src)
    while i < n:
        c = src[i]
        if c == '"':
            i += 1
            while i < n and src[i] != '"':
                i += 2 if src[i] == "\\" else 1
        elif c in OPEN:
            depth += 1
        elif c in CLOSE:
            depth -= 1
            if depth == 0:
                return i
        i += 1
    return -1


def split_top(s, sep=","):
    """Split at top-level separators (brackets, angle brackets and strings respected)."""
    parts, depth, ang, cur, i, n = [], 0, 0, [], 0, len(s)
    while i < n:
        c = s[i]
        if c == '"':
            j = i + 1
            while j < n and s[j] != '"':
                j += 2 if s[j] == "\\" else 1
            cur.append(s[i:j + 1]); i = j + 1; continue
        if c in OPEN: depth += 1
        elif c in CLOSE: depth -= 1
        elif c == "<": ang += 1
        elif c == ">" and ang > 0 and (i == 0 or s[i - 1] != "-"): ang -= 1
        if c == sep and depth == 0 and ang == 0:
            parts.append("".join(cur)); cur = []
        else:
            cur.append(c)
        i += 1
    if "".join(cur).strip():
        parts.append("".join(cur))
    return [p.strip() for p in parts]


def find_item(src, kind, name):
    """(attributes before the item, body between the braces) of `pub <kind> <name>…{…}`."""
    m = re.search(r"\bpub\s+%s\s+%s\b[^{;]*\{" % (kind, name), src)
    if not m:
        return None
    o = m.end() - 1
    c = matching(src, o)
    if c < 0:
        return None
    # attributes: walk backwards over `#[...]` groups directly in front of the item
    head = src[:m.start()].rstrip()
    attrs = []
    while head.endswith("]"):
        depth, j = 0, len(head) - 1
        while j >= 0:
            if head[j] == "]": depth += 1
            elif head[j] == "[":
                depth -= 1
                if depth == 0: break
            j -= 1
        if j < 1 or head[j - 1] != "#":
            break
        attrs.insert(0, head[j + 1:-1])
        head = head[:j - 1].rstrip()
    return attrs, src[o + 1:c]


def members(body):
    """[(attribute texts, member text)] of a struct/enum body."""
    res, i, n = [], 0, len(body)
    attrs = []
    while i < n:
        if body[i].isspace() or body[i] == ",":
            i += 1; continue
        if body.startswith("#[", i):
            c = matching(body, i + 1)
            attrs.append(body[i + 2:c]); i = c + 1; continue
        # member text up to the next top-level comma
        depth, ang, j = 0, 0, i
        while j < n:
            ch = body[j]
            if ch in OPEN: depth += 1
            elif ch in CLOSE: depth -= 1
            elif ch == "<": ang += 1
            elif ch == ">" and ang > 0: ang -= 1
            elif ch == "," and depth == 0 and ang == 0: break
            j += 1
        res.append((attrs, body[i:j].strip())); attrs = []; i = j + 1
    return res


def attr_pairs(attrs, which):
    """(key, value) pairs of every `which(...)` attribute, also inside cfg_attr(.., which(...))."""
    out = []
    for a in attrs:
        a = a.strip()
        for m in re.finditer(r"\b%s\s*\(" % which, a):
            if a.startswith("cfg_attr") and which == "zlink":
                pass
            o = m.end() - 1
            c = matching(a, o)
            for p in split_top(a[o + 1:c]):
                if "=" in p:
                    k, v = p.split("=", 1)
                    out.append((k.strip(), v.strip().strip('"')))
                elif p:
                    out.append((p.strip(), ""))
    return out


def derives(attrs):
    out = []
    for a in attrs:
        for m in re.finditer(r"\bderive\s*\(", a):
            o = m.end() - 1
            out += [p.split("::")[-1].strip() for p in split_top(a[o + 1:matching(a, o)])]
    return out


def norm_ty(t):
    t = re.sub(r"'\w+\s*", "", t)       # lifetimes
    t = re.sub(r"\s+", "", t)
    return t.replace("alloc::string::", "").replace("std::string::", "")


def field(attrs, text):
    m = re.match(r"(?:pub(?:\([^)]*\))?\s+)?(r#)?(\w+)\s*:\s*(.+)$", text, re.S)
    if not m:
        die("cannot read field %r" % text)
    sa = attr_pairs(attrs, "serde")
    name = m.group(2)
    for k, v in sa:
        if k == "rename":
            name = v
    return (name, norm_ty(m.group(3)), [(k, v) for k, v in sa if k != "rename"])


def variant(attrs, text):
    m = re.match(r"(\w+)\s*(\{(.*)\}|\((.*)\))?\s*$", text, re.S)
    if not m:
        die("cannot read variant %r" % text)
    sa = attr_pairs(attrs, "serde") + [("zlink:" + k, v) for k, v in attr_pairs(attrs, "zlink")]
    name = m.group(1)
    for k, v in sa:
        if k in ("rename", "zlink:rename"):
            name = v
    fs = []
    if m.group(3) is not None:
        fs = [field(a, t) for a, t in members(m.group(3))]
    elif m.group(4) is not None:
        fs = [("%d" % i, norm_ty(t), []) for i, t in enumerate(split_top(m.group(4)))]
    return (name, [(k, v) for k, v in sa if k not in ("rename", "zlink:rename")], fs)


def extract():
    p_reply = os.path.join(REPO, "zlink-core/src/reply.rs")
    p_api = os.path.join(REPO, "zlink-core/src/varlink_service/api.rs")
    for p in (p_reply, p_api):
        if not os.path.exists(p):
            die("%s not found" % p)
    reply_src = strip_comments(open(p_reply).read())
    api_src = strip_comments(open(p_api).read())
    # tests at the end of the files are not declarations
    reply_src = reply_src.split("#[cfg(test)]")[0]
    api_src = api_src.split("#[cfg(test)]")[0]

    it = find_item(reply_src, "struct", "Reply")
    if not it:
        die("`pub struct Reply<..> { .. }` not found in reply.rs")
    r_attrs, r_body = it
    reply_fields = [field(a, t) for a, t in members(r_body)]
    reply_cont = attr_pairs(r_attrs, "serde")
    reply_derives = [d for d in derives(r_attrs) if d in ("Serialize", "Deserialize")]
    # the NoError guard: an impl of Deserialize whose body yields no Ok value
    refuses = False
    m = re.search(r"impl\s*<[^>]*>\s*Deserialize\s*<[^>]*>\s*for\s+NoError\s*\{", reply_src)
    if m:
        o = m.end() - 1
        body = reply_src[o:matching(reply_src, o) + 1]
        refuses = ("Err(" in body) and ("Ok(" not in body)
    elif any(t == "NoError" for _, t, _ in reply_fields):
        refuses = False

    it = find_item(api_src, "enum", "Method")
    if not it:
        die("`pub enum Method<..> { .. }` not found in varlink_service/api.rs")
    m_attrs, m_body = it
    method_cont = attr_pairs(m_attrs, "serde")
    method_vars = [variant(a, t) for a, t in members(m_body)]
    visits = []
    m = re.search(r"\bfn\s+no_parameters\b[^{]*\{", api_src)
    if m:
        o = m.end() - 1
        body = api_src[o:matching(api_src, o) + 1]
        visits = sorted(set(re.findall(r"\bfn\s+(visit_\w+)", body)))
        if "deserialize_any" not in body:
            visits.append("!not-deserialize_any")

    it = find_item(api_src, "enum", "Error")
    if not it:
        die("`pub enum Error { .. }` not found in varlink_service/api.rs")
    e_attrs, e_body = it
    e_z = dict(attr_pairs([a for a in e_attrs if not a.strip().startswith("cfg_attr")], "zlink"))
    if "interface" not in e_z:
        die("`#[zlink(interface = ..)]` not found on varlink_service::Error")
    e_derives = [d for d in derives([a for a in e_attrs if not a.strip().startswith("cfg_attr")])
                 if d in ("ReplyError", "Serialize", "Deserialize")]
    error_vars = [variant(a, t) for a, t in members(e_body)]
    return dict(reply_fields=reply_fields, reply_cont=reply_cont, reply_derives=reply_derives, refuses=refuses,
                method_cont=method_cont, method_vars=method_vars, visits=visits,
                error_iface=e_z["interface"], error_derives=e_derives, error_vars=error_vars)


def q(s):
    return '"' + s.replace('"', '""') + '"'


def ql(l):
    return "[" + "; ".join(l) + "]"


def qattrs(a):
    return ql("(%s, %s)" % (q(k), q(v)) for k, v in a)


def qfield(f):
    return "(%s, %s, %s)" % (q(f[0]), q(f[1]), qattrs(f[2]))


def qvariant(v):
    return "(%s, %s,\n       %s)" % (q(v[0]), qattrs(v[1]), ql(qfield(f) for f in v[2]))


def main():
    d = extract()
    txt = """(* GENERATED by translate/decls.py from zlink-core/src/reply.rs and
   zlink-core/src/varlink_service/api.rs — do not edit.  Declarations whose wire behaviour serde's
   derive (or zlink's ReplyError derive) decides from the declaration alone. *)
From Coq Require Import String List.
Import ListNotations.
Open Scope string_scope.

Definition dattr : Type := (string * string)%%type.              (* serde attribute: key, value ("" = flag) *)
Definition dfield : Type := (string * string * list dattr)%%type. (* wire name, type text, attributes *)
Definition dvariant : Type := (string * list dattr * list dfield)%%type.

(* reply.rs: pub struct Reply<Params> *)
Definition reply_derives : list string := %s.
Definition reply_container_attrs : list dattr := %s.
Definition reply_fields : list dfield :=
  %s.
(* `impl Deserialize for NoError` has an Err(..) and no Ok(..) *)
Definition no_error_refuses_everything : bool := %s.

(* varlink_service/api.rs: pub enum Method<'a> *)
Definition method_container_attrs : list dattr := %s.
Definition method_variants : list dvariant :=
  %s.
(* Visitor methods implemented inside fn no_parameters (which calls deserialize_any) *)
Definition no_parameters_visits : list string := %s.

(* varlink_service/api.rs: pub enum Error *)
Definition error_derives : list string := %s.
Definition error_interface : string := %s.
Definition error_variants : list dvariant :=
  %s.
""" % (ql(q(x) for x in d["reply_derives"]), qattrs(d["reply_cont"]),
       ql("\n    " + qfield(f) for f in d["reply_fields"]),
       "true" if d["refuses"] else "false",
       qattrs(d["method_cont"]), ql("\n    " + qvariant(v) for v in d["method_vars"]),
       ql(q(x) for x in d["visits"]),
       ql(q(x) for x in d["error_derives"]), q(d["error_iface"]),
       ql("\n    " + qvariant(v) for v in d["error_vars"]))
    old = open(OUT).read() if os.path.exists(OUT) else None
    if old != txt:
        os.makedirs(os.path.dirname(OUT), exist_ok=True)
        with open(OUT, "w") as f:
            f.write(txt)
    print("decls: Reply fields %s; Method variants %s; Error(%s) variants %s; NoError refuses everything: %s" % (
        [f[0] for f in d["reply_fields"]], [v[0] for v in d["method_vars"]], d["error_iface"],
        [v[0] for v in d["error_vars"]], d["refuses"]))


if __name__ == "__main__":
    main()
