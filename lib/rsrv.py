"""Real-socket server leg (harness/src/bin/rsrv.rs): the real Server::run of zlink-tokio and zlink-smol
over real Unix sockets on one thread, client bytes written before the start or from inside the service
handler at fixed points. Spec-level verdicts (C08: every call handled exactly once and answered on its
own connection; C18: a complete call is not overtaken by more than a bounded number of a flooder's
calls; C07/C09: an accepted client is not lost when another arm of the server loop wins)."""
import json, os
from vlib import *


def call(client, seq, oneway=False, pad=0):
    s = '{"method":"org.example.Ping","parameters":{"client":"%s","seq":%d}%s%s}' % (
        client, seq, ',"oneway":true' if oneway else "", (',"x":"%s"' % ("p" * pad)) if pad else "")
    return s.encode() + b"\0"


def calls(client, seqs, oneway=False):
    return b"".join(call(client, s, oneway) for s in seqs)


def scenarios(rng, tier):
    sc = []

    def add(name, rt, pre, triggers, expect, verdict, timeout_ms=8000):
        sc.append({"id": len(sc), "name": name, "runtime": rt, "pre": pre, "triggers": triggers,
                   "expect_total": expect, "timeout_ms": timeout_ms, "verdict": verdict})
    for rt in ("tokio", "smol"):
        # S1: a flooder's burst is buffered; the victim's complete call arrives while it is being served
        for flood, at in ((20, 2), (40, 7)) if tier == "quick" else ((20, 2), (40, 7), (200, 50), (12, 1)):
            add("buffered_flood", rt,
                [["connect", "F"], ["connect", "V"], ["write", "F", calls("F", range(1, flood + 1)).hex()]],
                [{"on": ["F", at], "do": [["write", "V", call("V", 1).hex()]]}],
                # (tokio learns about new data on another socket only when the I/O driver runs, i.e. when the
                # server task yields; a buffered burst is served without yielding, so only smol is held to
                # the round-robin bound here; on tokio everything must still be served and answered)
                flood + 1, {"kind": "overtaken" if rt == "smol" else "all_once", "victim": "V", "after": ["F", at],
                            "bound": 2, "replies": {"F": flood, "V": 1}})
        # S2: the victim's call arrives in two pieces, other calls are served in between
        for cut in (20, 1, 45):
            v = call("V", 1)
            add("split_call_between_others", rt,
                [["connect", "F"], ["connect", "V"], ["write", "F", calls("F", [1, 2, 3]).hex()]],
                [{"on": ["F", 3], "do": [["write", "V", v[:cut].hex()], ["write", "F", calls("F", [4, 5, 6]).hex()]]},
                 {"on": ["F", 6], "do": [["write", "V", v[cut:].hex()]]}],
                7, {"kind": "all_once", "replies": {"F": 6, "V": 1}})
        # S3: a flood of oneway calls sits in the flooder's socket; the victim's call arrives after the
        # flood has started. (On tokio the victim needs a turn of the I/O driver, which the cooperative
        # budget guarantees after a bounded number of operations.)
        n = 2400  # must fit the socket buffer: it is written before the server runs
        add("oneway_flood", rt,
            [["connect", "F"], ["connect", "V"], ["write", "F", calls("F", range(1, n + 1), oneway=True).hex()]],
            [{"on": ["F", 10], "do": [["write", "V", call("V", 1).hex()]]}],
            n + 1, {"kind": "overtaken", "victim": "V", "after": ["F", 10], "bound": 2 if rt == "smol" else n // 2,
                    "replies": {"F": 0, "V": 1}}, timeout_ms=15000)
        # S4: a client is in the listen backlog at the very moment another client's call is readable
        add("connect_while_call_ready", rt,
            [["connect", "A"], ["write", "A", call("A", 1).hex()], ["connect", "B"], ["write", "B", call("B", 1).hex()]],
            [], 2, {"kind": "all_once", "replies": {"A": 1, "B": 1}})
        add("connect_during_flood", rt,
            [["connect", "F"], ["write", "F", calls("F", range(1, 31)).hex()]],
            [{"on": ["F", 5], "do": [["connect", "N"], ["write", "N", call("N", 1).hex()]]},
             {"on": ["F", 9], "do": [["connect", "M"], ["write", "M", calls("M", [1, 2]).hex()]]}],
            33, {"kind": "overtaken" if rt == "smol" else "all_once", "victim": "N", "after": ["F", 5], "bound": 3,
                 "replies": {"F": 30, "N": 1, "M": 2}})
        # S5: a client that wrote its calls and half-closed / went away before the server read them
        add("write_then_half_close", rt,
            [["connect", "A"], ["write", "A", calls("A", [1, 2]).hex()], ["shutdown_write", "A"],
             ["connect", "B"], ["write", "B", call("B", 1).hex()]],
            [], 3, {"kind": "all_once", "replies": {"A": 2, "B": 1}})
        add("oneway_then_exit", rt,
            [["connect", "A"], ["write", "A", calls("A", [1, 2, 3], oneway=True).hex()], ["close", "A"],
             ["connect", "B"], ["write", "B", call("B", 1).hex()]],
            [], 4, {"kind": "all_once", "replies": {"B": 1}})
    return sc


def judge(c, r):
    """Returns None when the scenario's expectation holds, else a description."""
    v = c["verdict"]
    if r.get("panic") or r.get("crash"):
        return "the run panicked or crashed"
    if r.get("errors"):
        return "client-side errors: %s" % r["errors"][:3]
    if not str(r.get("server", "")).startswith("running"):
        return "Server::run ended: %s" % r.get("server")
    order = [tuple(x) for x in r.get("order", [])]
    if len(set(order)) != len(order):
        return "a call was handled more than once: %s" % [x for x in order if order.count(x) > 1][:3]
    if r.get("timed_out") or len(order) < c["expect_total"]:
        return "only %d of %d calls were handled before the time-out (handled: %s)" % (
            len(order), c["expect_total"], order[:12] + (["..."] if len(order) > 12 else []))
    # per-client order and replies
    by = {}
    for cl, s in order:
        by.setdefault(cl, []).append(s)
    for cl, seqs in by.items():
        if seqs != sorted(seqs):
            return "client %s's calls were handled out of order: %s" % (cl, seqs[:12])
    for cl, n in v.get("replies", {}).items():
        rd = r.get("reads", {}).get(cl)
        if rd is None:
            continue
        frames = [f for f in bytes.fromhex(rd["data"]).split(b"\0") if f]
        got = []
        for f in frames:
            try:
                got.append(json.loads(f)["parameters"]["seq"])
            except Exception:
                got.append("?")
        want = [s for s in by.get(cl, [])][:n] if n else []
        if n and got != want:
            return "client %s received %s (socket %s), expected the replies to its calls %s in order" % (
                cl, got[:12], rd["status"], want[:12])
        if not n and got:
            return "client %s received %s although its calls were oneway" % (cl, got[:5])
    if v["kind"] == "overtaken":
        a = order.index(tuple(v["after"]))
        vi = [i for i, (cl, _) in enumerate(order) if cl == v["victim"]]
        if not vi:
            return "the victim was never served"
        between = vi[0] - a - 1
        if between > v["bound"]:
            return ("the victim's complete call waited while %d further calls of the flooder were served (bound %d)"
                    % (between, v["bound"]))
    return None


def run_rsrv(ck, only=None):
    """Build and run the scenarios; report violations on ck. Returns (runs, failures)."""
    root = harness_root()
    rc_, log_ = sh("cargo build --offline --bin rsrv --target-dir %s" % os.path.join(root, "target-nohook"),
                   timeout=1500, cwd=root, env={"RUSTFLAGS": ""})
    if rc_ != 0:
        ck.violation("real-socket server harness does not build against /repo", {"log": log_[-3000:]}, tag="rsbuild",
                     no_input=True)
        return 0, 1
    if ck.replay and json.load(open(ck.replay)).get("leg") == "real_server":
        cs = [json.load(open(ck.replay))["case"]]
    elif ck.replay:
        return 0, 0
    else:
        cs = [c for c in scenarios(ck.rng, ck.tier) if only is None or c["name"] in only]
    exe = os.path.join(root, "target-nohook", "debug", "rsrv")
    from concurrent.futures import ThreadPoolExecutor

    def one(c):
        rc2, out2 = sh(exe, timeout=120, input=json.dumps({k: v for k, v in c.items() if k != "verdict"}) + "\n")
        for l in out2.splitlines():
            if l.startswith("{"):
                try:
                    return json.loads(l)
                except ValueError:
                    pass
        return {"crash": True, "log": out2[-300:]}
    with ThreadPoolExecutor(max_workers=6) as ex:
        res = list(ex.map(one, cs))
    bad = 0
    for c, r in zip(cs, res):
        why = judge(c, r)
        if why:
            bad += 1
            slim = dict(r)
            if len(slim.get("order", [])) > 60:
                slim["order"] = slim["order"][:60] + ["..."]
            ck.violation("real %s server over Unix sockets, scenario %s: %s" % (c["runtime"], c["name"], why),
                         {"leg": "real_server", "case": c, "impl": slim}, tag="rs%d" % c["id"])
    ck.cov["real_socket_server_scenarios"] = len(cs)
    return len(cs), bad
