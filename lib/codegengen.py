"""Helpers shared by the corpus-compiling checks C15 and C16: writing a generated cargo package
under /verif/work/<id>/…, building it offline against /repo with the shared corpus target dir,
running its binaries, and rendering Python data as Coq terms of Codegen/IdlTy.v."""
import json
import os
import re
import subprocess

from vlib import REPO, VERIF, sh

TARGET = os.path.join(VERIF, "harness", "target-corpus")

CARGO_CONFIG = """[net]
offline = true
[build]
target-dir = "%s"
rustflags = ["--cfg", "zlink_verif"]
""" % TARGET


def write_if_changed(path, text):
    os.makedirs(os.path.dirname(path), exist_ok=True)
    if os.path.exists(path) and open(path, encoding="utf-8").read() == text:
        return False
    with open(path, "w", encoding="utf-8") as f:
        f.write(text)
    return True


def write_crate(cdir, name, deps, files, profile_opt=0):
    """Write a cargo package (empty [workspace], path deps on /repo, copied Cargo.lock). `files`
    maps relative paths to contents; stale .rs files under src/ are removed. Returns True when
    anything changed."""
    toml = """[workspace]

[package]
name = "%s"
version = "0.0.0"
edition = "2021"

[dependencies]
%s

[profile.dev]
opt-level = %d
debug = false
incremental = false
""" % (name, deps.replace("/repo/", REPO.rstrip("/") + "/"), profile_opt)
    ch = write_if_changed(os.path.join(cdir, "Cargo.toml"), toml)
    ch |= write_if_changed(os.path.join(cdir, ".cargo", "config.toml"), CARGO_CONFIG)
    lock_src = open(os.path.join(REPO, "Cargo.lock")).read()
    lock = os.path.join(cdir, "Cargo.lock")
    if not os.path.exists(lock):
        open(lock, "w").write(lock_src)
        ch = True
    keep = set()
    for rel, text in files.items():
        keep.add(os.path.normpath(os.path.join(cdir, rel)))
        ch |= write_if_changed(os.path.join(cdir, rel), text)
    for root, _, fs in os.walk(os.path.join(cdir, "src")):
        for f in fs:
            p = os.path.normpath(os.path.join(root, f))
            if p not in keep:
                os.unlink(p)
                ch = True
    return ch


def cargo_build(cdir, args="--bins", timeout=3000, keep_going=False):
    """-> (ok, log). The log is rustc's human-readable output."""
    cmd = "cargo build --offline %s%s" % (args, " --keep-going" if keep_going else "")
    rc, out = sh(cmd, timeout=timeout, cwd=cdir)
    if rc != 0 and "Cargo.lock" in out and ("needs to be updated" in out or "failed to select" in out):
        # the lock copied from /repo went stale (dependency set of /repo changed): refresh once
        open(os.path.join(cdir, "Cargo.lock"), "w").write(open(os.path.join(REPO, "Cargo.lock")).read())
        rc, out = sh(cmd, timeout=timeout, cwd=cdir)
    return rc == 0, out


def run_bin(name, stdin_text="", timeout=600, args=""):
    exe = os.path.join(TARGET, "debug", name)
    rc, out = sh("%s %s" % (exe, args), timeout=timeout, input=stdin_text)
    res = []
    for line in out.split("\n"):      # not splitlines(): U+0085 / U+2028 inside a JSON string are data
        line = line.strip(" \r\t")
        if line.startswith("{"):
            try:
                res.append(json.loads(line))
            except ValueError:
                pass
    return rc, res, out


def first_errors(log, n=3):
    """The first n rustc errors of a build log, each with its `--> file:line` location."""
    errs = []
    for m in re.finditer(r"^(error(?:\[E\d+\])?: [^\n]*)\n(?:[^\n]*\n)*?\s*--> ([^\n:]+):(\d+):(\d+)", log, re.M):
        errs.append({"msg": m.group(1), "file": m.group(2), "line": int(m.group(3))})
        if len(errs) >= n:
            break
    return errs


# ---------------------------------------------------------------- Coq rendering
def cq(s):
    """Coq string literal (bytes of the UTF-8 encoding; only `"` needs escaping)."""
    return '"' + s.replace('"', '""') + '"'


def cq_list(items):
    return "[" + "; ".join(items) + "]"


def cq_comments(cs):
    return cq_list([cq(c) for c in cs])


def cq_idl(t):
    """JSON form of an idl::Type (as dumped by the corpus binaries) -> idl_ty term."""
    if isinstance(t, str):
        return {"bool": "TBool", "int": "TInt", "float": "TFloat", "string": "TString",
                "object": "TForeign"}[t]
    (k, v), = t.items()
    if k == "opt":
        return "(TOptional %s)" % cq_idl(v)
    if k == "arr":
        return "(TArray %s)" % cq_idl(v)
    if k == "map":
        return "(TMap %s)" % cq_idl(v)
    if k == "custom":
        return "(TCustom %s)" % cq(v)
    if k == "enum":
        return "(TEnum %s)" % cq_list(["(%s, %s)" % (cq(n), cq_comments(c)) for n, c in v])
    if k == "obj":
        return "(TObject %s)" % cq_fields(v)
    raise ValueError("bad idl json: %r" % (t,))


def cq_fields(fs):
    return cq_list(["(%s, %s, %s)" % (cq(n), cq_idl(t), cq_comments(c)) for n, t, c in fs])


def cq_custom(c):
    if c["kind"] == "object":
        return "(CObject %s %s %s)" % (cq(c["name"]), cq_fields(c["fields"]), cq_comments(c["comments"]))
    return "(CEnum %s %s %s)" % (cq(c["name"]), cq_list(
        ["(%s, %s)" % (cq(n), cq_comments(cs)) for n, cs in c["variants"]]), cq_comments(c["comments"]))


def cq_error(e):
    return "{| e_name := %s; e_fields := %s; e_comments := %s |}" % (
        cq(e["name"]), cq_fields(e["fields"]), cq_comments(e["comments"]))


def cq_opt(x, f):
    return "None" if x is None else "(Some %s)" % f(x)


# Rust helper module (included by the generated corpus binaries): canonical JSON of idl values.
DUMP_RS = r'''
// GENERATED helper: canonical JSON of zlink idl descriptions.
#![allow(dead_code)]
use serde_json::{json, Value};
use zlink::idl;

pub fn comments<'a>(it: impl Iterator<Item = &'a idl::Comment<'a>>) -> Value {
    Value::Array(it.map(|c| Value::String(c.content().to_string())).collect())
}
pub fn ty(t: &idl::Type<'_>) -> Value {
    match t {
        idl::Type::Bool => json!("bool"),
        idl::Type::Int => json!("int"),
        idl::Type::Float => json!("float"),
        idl::Type::String => json!("string"),
        idl::Type::ForeignObject => json!("object"),
        idl::Type::Optional(i) => json!({"opt": ty(i.inner())}),
        idl::Type::Array(i) => json!({"arr": ty(i.inner())}),
        idl::Type::Map(i) => json!({"map": ty(i.inner())}),
        idl::Type::Custom(n) => json!({"custom": n}),
        idl::Type::Enum(vs) => json!({"enum": vs.iter().map(variant).collect::<Vec<_>>()}),
        idl::Type::Object(fs) => json!({"obj": fs.iter().map(field).collect::<Vec<_>>()}),
    }
}
pub fn variant(v: &idl::EnumVariant<'_>) -> Value {
    json!([v.name(), comments(v.comments())])
}
pub fn field(f: &idl::Field<'_>) -> Value {
    json!([f.name(), ty(f.ty()), comments(f.comments())])
}
pub fn custom(c: &idl::CustomType<'_>) -> Value {
    match c {
        idl::CustomType::Object(o) => json!({"kind": "object", "name": o.name(),
            "fields": o.fields().map(field).collect::<Vec<_>>(), "comments": comments(o.comments())}),
        idl::CustomType::Enum(e) => json!({"kind": "enum", "name": e.name(),
            "variants": e.variants().map(variant).collect::<Vec<_>>(), "comments": comments(e.comments())}),
    }
}
pub fn error(e: &idl::Error<'_>) -> Value {
    json!({"name": e.name(), "fields": e.fields().map(field).collect::<Vec<_>>(),
           "comments": comments(e.comments())})
}
pub fn method(m: &idl::Method<'_>) -> Value {
    json!({"name": m.name(), "inputs": m.inputs().map(field).collect::<Vec<_>>(),
           "outputs": m.outputs().map(field).collect::<Vec<_>>(), "comments": comments(m.comments())})
}
pub fn interface(i: &idl::Interface<'_>) -> Value {
    json!({"name": i.name(), "methods": i.methods().map(method).collect::<Vec<_>>(),
           "types": i.custom_types().map(custom).collect::<Vec<_>>(),
           "errors": i.errors().map(error).collect::<Vec<_>>(), "comments": comments(i.comments())})
}
'''


# ---------------------------------------------------------------- heck (Python port, generation only)
# Used ONLY to keep generated IDL names collision-free; expectations never come from here (they come
# from the Coq model, which is tied to the real heck by the sweep).
def _heck_words(s):
    words = []
    for word in re.split(r"[^A-Za-z0-9]", s):
        init, mode, n = 0, "b", len(word)
        for i, c in enumerate(word):
            if i + 1 < n:
                nxt = word[i + 1]
                nm = "l" if c.islower() else ("u" if c.isupper() else mode)
                if nm == "l" and nxt.isupper():
                    words.append(word[init:i + 1])
                    init, mode = i + 1, "b"
                elif mode == "u" and c.isupper() and nxt.islower():
                    words.append(word[init:i])
                    init, mode = i, "b"
                else:
                    mode = nm
            else:
                words.append(word[init:])
    return words


def snake(s):
    return "_".join(w.lower() for w in _heck_words(s))


def pascal(s):
    return "".join(w[:1].upper() + w[1:].lower() for w in _heck_words(s))


# ---------------------------------------------------------------- parsing generated modules
def split_top(s, sep=","):
    parts, depth, cur = [], 0, []
    for ch in s:
        if ch in "<([":
            depth += 1
        elif ch in ">)]":
            depth -= 1
        if ch == sep and depth == 0:
            parts.append("".join(cur))
            cur = []
        else:
            cur.append(ch)
    if "".join(cur).strip():
        parts.append("".join(cur))
    return [p.strip() for p in parts]


class ParseError(Exception):
    pass


def parse_generated(code):
    """Abstract module of a file written by zlink_codegen::generate_interface: proxy attribute, trait,
    method signatures with their attributes, structs, enums, the error enum. Raises ParseError on
    anything unexpected (reported as a broken correspondence)."""
    mod = {"iface": None, "trait": None, "error_ty": None, "methods": [], "structs": [], "enums": [],
           "errors": None, "stub_error": False}
    lines = [l.rstrip() for l in code.split("\n")]
    i, pend = 0, []          # pend: attribute lines seen since the last item

    def attr_val(attrs, kind, key):
        for a in attrs:
            m = re.fullmatch(r'#\[%s\(%s = "((?:[^"\\]|\\.)*)"\)\]' % (kind, key), a)
            if m:
                return m.group(1)
        return None
    n = len(lines)
    while i < n:
        t = lines[i].strip()
        i += 1
        if not t or t.startswith("//") or t.startswith("use "):
            continue
        if t.startswith("#["):
            pend.append(t)
            continue
        m = re.fullmatch(r"pub trait (\w+) \{", t)
        if m:
            mod["trait"] = m.group(1)
            pm = [re.fullmatch(r'#\[proxy\("([^"]*)"\)\]', a) for a in pend]
            pm = [x for x in pm if x]
            if not pm:
                raise ParseError("trait without #[proxy(..)]")
            mod["iface"] = pm[0].group(1)
            pend = []
            mattrs = []
            while i < n:
                t = lines[i].strip()
                i += 1
                if t == "}":
                    break
                if not t or t.startswith("///"):
                    continue
                if t.startswith("#["):
                    mattrs.append(t)
                    continue
                mm = re.fullmatch(r"async fn (\S+?)\(&mut self(.*)\) -> zlink::Result<Result<(.+), (\w+)>>;", t)
                if not mm:
                    raise ParseError("unexpected line in trait: " + t)
                params = []
                for p in split_top(mm.group(2)):
                    if not p:
                        continue
                    pm2 = re.fullmatch(r'(?:#\[zlink\(rename = "([^"]*)"\)\] )?(\S+): (.+)', p)
                    if not pm2:
                        raise ParseError("unexpected parameter: " + p)
                    params.append({"ident": pm2.group(2), "rename": pm2.group(1), "ty": pm2.group(3), "borrow": False})
                other = [a for a in mattrs if not re.fullmatch(r'#\[zlink\(rename = "[^"]*"\)\]', a)]
                if other:
                    raise ParseError("unexpected method attribute: " + other[0])
                mod["methods"].append({"ident": mm.group(1), "rename": attr_val(mattrs, "zlink", "rename"),
                                       "params": params, "ret": mm.group(3)})
                if mod["error_ty"] not in (None, mm.group(4)):
                    raise ParseError("methods name different error types")
                mod["error_ty"] = mm.group(4)
                mattrs = []
            continue
        m = re.fullmatch(r"pub struct (\w+)(<'a>)? \{", t)
        if m:
            st = {"name": m.group(1), "lt": bool(m.group(2)), "fields": []}
            pend = []
            fattrs = []
            while i < n:
                t = lines[i].strip()
                i += 1
                if t == "}":
                    break
                if not t or t.startswith("///"):
                    continue
                if t.startswith("#["):
                    fattrs.append(t)
                    continue
                fm = re.fullmatch(r"pub (\S+): (.+),", t)
                if not fm:
                    raise ParseError("unexpected line in struct: " + t)
                other = [a for a in fattrs if a != "#[serde(borrow)]" and not re.fullmatch(r'#\[serde\(rename = "[^"]*"\)\]', a)]
                if other:
                    raise ParseError("unexpected field attribute: " + other[0])
                st["fields"].append({"ident": fm.group(1), "rename": attr_val(fattrs, "serde", "rename"),
                                     "ty": fm.group(2), "borrow": "#[serde(borrow)]" in fattrs})
                fattrs = []
            mod["structs"].append(st)
            continue
        m = re.fullmatch(r"pub enum (\w+) \{(\})?", t)
        if m:
            is_err = any("ReplyError" in a for a in pend)
            if is_err:
                er = {"name": m.group(1), "iface": attr_val(pend, "zlink", "interface"), "variants": []}
                if m.group(2):
                    mod["stub_error"] = True
                    pend = []
                    if er["name"] != mod["error_ty"] and mod["error_ty"] is not None:
                        raise ParseError("stub error enum name differs from the signatures")
                    mod["stub_name"] = er["name"]
                    continue
                pend = []
                while i < n:
                    t = lines[i].strip()
                    i += 1
                    if t == "}":
                        break
                    if not t or t.startswith("///"):
                        continue
                    vm = re.fullmatch(r"(\S+),", t)
                    if vm:
                        er["variants"].append({"ident": vm.group(1), "fields": []})
                        continue
                    vm = re.fullmatch(r"(\S+) \{", t)
                    if not vm:
                        raise ParseError("unexpected line in error enum: " + t)
                    v = {"ident": vm.group(1), "fields": []}
                    fattrs = []
                    while i < n:
                        t = lines[i].strip()
                        i += 1
                        if t == "},":
                            break
                        if not t or t.startswith("///"):
                            continue
                        if t.startswith("#["):
                            fattrs.append(t)
                            continue
                        fm = re.fullmatch(r"(\S+): (.+),", t)
                        if not fm:
                            raise ParseError("unexpected line in error variant: " + t)
                        other = [a for a in fattrs if not re.fullmatch(r'#\[zlink\(rename = "[^"]*"\)\]', a)]
                        if other:
                            raise ParseError("unexpected error field attribute: " + other[0])
                        v["fields"].append({"ident": fm.group(1), "rename": attr_val(fattrs, "zlink", "rename"),
                                            "ty": fm.group(2), "borrow": False})
                        fattrs = []
                    er["variants"].append(v)
                mod["errors"] = er
                continue
            en = {"name": m.group(1), "rename_all": attr_val(pend, "serde", "rename_all"), "variants": []}
            pend = []
            vattrs = []
            if not m.group(2):
                while i < n:
                    t = lines[i].strip()
                    i += 1
                    if t == "}":
                        break
                    if not t or t.startswith("///"):
                        continue
                    if t.startswith("#["):
                        vattrs.append(t)
                        continue
                    vm = re.fullmatch(r"(\S+),", t)
                    if not vm:
                        raise ParseError("unexpected line in enum: " + t)
                    other = [a for a in vattrs if not re.fullmatch(r'#\[serde\(rename = "[^"]*"\)\]', a)]
                    if other:
                        raise ParseError("unexpected variant attribute: " + other[0])
                    en["variants"].append({"ident": vm.group(1), "rename": attr_val(vattrs, "serde", "rename")})
                    vattrs = []
            mod["enums"].append(en)
            continue
        raise ParseError("unexpected line: " + t)
    if mod["trait"] is None:
        raise ParseError("no proxy trait found")
    if mod["error_ty"] is None:
        mod["error_ty"] = mod["errors"]["name"] if mod["errors"] else mod.get("stub_name")
    return mod


def cq_ostr(x):
    return "None" if x is None else "(Some %s)" % cq(x)


def cq_gfield(f):
    return "{| gf_ident := %s; gf_rename := %s; gf_ty := %s; gf_borrow := %s |}" % (
        cq(f["ident"]), cq_ostr(f["rename"]), cq(f["ty"]), "true" if f["borrow"] else "false")


def cq_gmodule(m):
    methods = cq_list(["{| gm_ident := %s; gm_rename := %s; gm_params := %s; gm_ret := %s |}" % (
        cq(x["ident"]), cq_ostr(x["rename"]), cq_list([cq_gfield(p) for p in x["params"]]), cq(x["ret"]))
        for x in m["methods"]])
    structs = cq_list(["{| gs_name := %s; gs_lifetime := %s; gs_fields := %s |}" % (
        cq(s["name"]), "true" if s["lt"] else "false", cq_list([cq_gfield(f) for f in s["fields"]]))
        for s in m["structs"]])
    enums = cq_list(["{| ge_name := %s; ge_rename_all := %s; ge_variants := %s |}" % (
        cq(e["name"]), cq_ostr(e["rename_all"]),
        cq_list(["{| gv_ident := %s; gv_rename := %s |}" % (cq(v["ident"]), cq_ostr(v["rename"])) for v in e["variants"]]))
        for e in m["enums"]])
    if m["errors"]:
        er = m["errors"]
        errors = "(Some {| gerr_name := %s; gerr_iface := %s; gerr_variants := %s |})" % (
            cq(er["name"]), cq(er["iface"] or ""),
            cq_list(["{| gev_ident := %s; gev_fields := %s |}" % (cq(v["ident"]), cq_list([cq_gfield(f) for f in v["fields"]]))
                     for v in er["variants"]]))
    else:
        errors = "None"
    return ("{| g_iface := %s; g_trait := %s; g_error_ty := %s; g_methods := %s; g_structs := %s; "
            "g_enums := %s; g_errors := %s |}") % (cq(m["iface"] or ""), cq(m["trait"] or ""), cq(m["error_ty"] or ""),
                                                    methods, structs, enums, errors)


# IDL trees (Python dicts) -> Coq terms of Codegen/IdlTy.v, and -> IDL text
# type: "bool"|"int"|"float"|"string"|"object"|{"opt":t}|{"arr":t}|{"map":t}|{"custom":n}|
#       {"enum":[[name,[]]..]}|{"obj":[[name,t,[]]..]}
def cq_method(m):
    return "{| m_name := %s; m_inputs := %s; m_outputs := %s; m_comments := [] |}" % (
        cq(m["name"]), cq_fields(m["inputs"]), cq_fields(m["outputs"]))


def cq_iface(i):
    return "{| i_name := %s; i_methods := %s; i_types := %s; i_errors := %s; i_comments := [] |}" % (
        cq(i["name"]), cq_list([cq_method(m) for m in i["methods"]]),
        cq_list([cq_custom(c) for c in i["types"]]), cq_list([cq_error(e) for e in i["errors"]]))


def idl_type_text(t):
    if isinstance(t, str):
        return t
    (k, v), = t.items()
    if k == "opt":
        return "?" + idl_type_text(v)
    if k == "arr":
        return "[]" + idl_type_text(v)
    if k == "map":
        return "[string]" + idl_type_text(v)
    if k == "custom":
        return v
    if k == "enum":
        return "(" + ", ".join(n for n, _ in v) + ")"
    if k == "obj":
        return "(" + ", ".join("%s: %s" % (n, idl_type_text(x)) for n, x, _ in v) + ")"
    raise ValueError(t)


def _comment_lines(cs):
    return ["# " + c if c else "#" for c in cs]


def _members_text(items):
    """`(a: int, b: string)`; one member per line, each preceded by its comments, when any member has
    comments. items: [(text, comments)]."""
    if not any(c for _, c in items):
        return "(" + ", ".join(t for t, _ in items) + ")"
    L = ["("]
    for k, (t, c) in enumerate(items):
        L += _comment_lines(c)
        L.append(t + ("," if k + 1 < len(items) else ""))
    L.append(")")
    return "\n".join(L)


def idl_text(i):
    L = _comment_lines(i.get("comments") or []) + ["interface " + i["name"], ""]
    for c in i["types"]:
        L += _comment_lines(c.get("comments") or [])
        if c["kind"] == "object":
            L.append("type %s %s" % (c["name"], _members_text([("%s: %s" % (n, idl_type_text(t)), cs) for n, t, cs in c["fields"]])))
        else:
            L.append("type %s %s" % (c["name"], _members_text([(n, cs) for n, cs in c["variants"]])))
        L.append("")
    for m in i["methods"]:
        L += _comment_lines(m.get("comments") or [])
        L.append("method %s%s -> %s" % (
            m["name"], _members_text([("%s: %s" % (n, idl_type_text(t)), cs) for n, t, cs in m["inputs"]]),
            _members_text([("%s: %s" % (n, idl_type_text(t)), cs) for n, t, cs in m["outputs"]])))
        L.append("")
    for e in i["errors"]:
        L += _comment_lines(e.get("comments") or [])
        L.append("error %s %s" % (e["name"], _members_text([("%s: %s" % (n, idl_type_text(t)), cs) for n, t, cs in e["fields"]])))
        L.append("")
    return "\n".join(L)
