"""Helpers shared by the corpus-compiling checks C15 and C16: writing a generated cargo package
under /verif/work/<id>/…, building it offline against /repo with the shared corpus target dir,
running its binaries, and rendering Python data as Coq terms of Codegen/IdlTy.v."""
import json
import os
import re
import subprocess

from vlib import REPO, VERIF, sh

TARGET = os.path.join(VERIF, "harness", "target-corpus")

CARGO_CONFIG = """[net]
offline = true
[build]
target-dir = "%s"
rustflags = ["--cfg", "zlink_verif"]
""" % TARGET


def write_if_changed(path, text):
    os.makedirs(os.path.dirname(path), exist_ok=True)
    if os.path.exists(path) and open(path).read() == text:
        return False
    with open(path, "w") as f:
        f.write(text)
    return True


def write_crate(cdir, name, deps, files, profile_opt=0):
    """Write a cargo package (empty [workspace], path deps on /repo, copied Cargo.lock). `files`
    maps relative paths to contents; stale .rs files under src/ are removed. Returns True when
    anything changed."""
    toml = """[workspace]

[package]
name = "%s"
version = "0.0.0"
edition = "2021"

[dependencies]
%s

[profile.dev]
opt-level = %d
debug = false
incremental = false
""" % (name, deps.replace("/repo/", REPO.rstrip("/") + "/"), profile_opt)
    ch = write_if_changed(os.path.join(cdir, "Cargo.toml"), toml)
    ch |= write_if_changed(os.path.join(cdir, ".cargo", "config.toml"), CARGO_CONFIG)
    lock_src = open(os.path.join(REPO, "Cargo.lock")).read()
    lock = os.path.join(cdir, "Cargo.lock")
    if not os.path.exists(lock):
        open(lock, "w").write(lock_src)
        ch = True
    keep = set()
    for rel, text in files.items():
        keep.add(os.path.normpath(os.path.join(cdir, rel)))
        ch |= write_if_changed(os.path.join(cdir, rel), text)
    for root, _, fs in os.walk(os.path.join(cdir, "src")):
        for f in fs:
            p = os.path.normpath(os.path.join(root, f))
            if p not in keep:
                os.unlink(p)
                ch = True
    return ch


def cargo_build(cdir, args="--bins", timeout=3000, keep_going=False):
    """-> (ok, log). The log is rustc's human-readable output."""
    cmd = "cargo build --offline %s%s" % (args, " --keep-going" if keep_going else "")
    rc, out = sh(cmd, timeout=timeout, cwd=cdir)
    if rc != 0 and "Cargo.lock" in out and ("needs to be updated" in out or "failed to select" in out):
        # the lock copied from /repo went stale (dependency set of /repo changed): refresh once
        open(os.path.join(cdir, "Cargo.lock"), "w").write(open(os.path.join(REPO, "Cargo.lock")).read())
        rc, out = sh(cmd, timeout=timeout, cwd=cdir)
    return rc == 0, out


def run_bin(name, stdin_text="", timeout=600, args=""):
    exe = os.path.join(TARGET, "debug", name)
    rc, out = sh("%s %s" % (exe, args), timeout=timeout, input=stdin_text)
    res = []
    for line in out.splitlines():
        line = line.strip()
        if line.startswith("{"):
            try:
                res.append(json.loads(line))
            except ValueError:
                pass
    return rc, res, out


def first_errors(log, n=3):
    """The first n rustc errors of a build log, each with its `--> file:line` location."""
    errs = []
    for m in re.finditer(r"^(error(?:\[E\d+\])?: [^\n]*)\n(?:[^\n]*\n)*?\s*--> ([^\n:]+):(\d+):(\d+)", log, re.M):
        errs.append({"msg": m.group(1), "file": m.group(2), "line": int(m.group(3))})
        if len(errs) >= n:
            break
    return errs


# ---------------------------------------------------------------- Coq rendering
def cq(s):
    """Coq string literal (bytes of the UTF-8 encoding; only `"` needs escaping)."""
    return '"' + s.replace('"', '""') + '"'


def cq_list(items):
    return "[" + "; ".join(items) + "]"


def cq_comments(cs):
    return cq_list([cq(c) for c in cs])


def cq_idl(t):
    """JSON form of an idl::Type (as dumped by the corpus binaries) -> idl_ty term."""
    if isinstance(t, str):
        return {"bool": "TBool", "int": "TInt", "float": "TFloat", "string": "TString",
                "object": "TForeign"}[t]
    (k, v), = t.items()
    if k == "opt":
        return "(TOptional %s)" % cq_idl(v)
    if k == "arr":
        return "(TArray %s)" % cq_idl(v)
    if k == "map":
        return "(TMap %s)" % cq_idl(v)
    if k == "custom":
        return "(TCustom %s)" % cq(v)
    if k == "enum":
        return "(TEnum %s)" % cq_list(["(%s, %s)" % (cq(n), cq_comments(c)) for n, c in v])
    if k == "obj":
        return "(TObject %s)" % cq_fields(v)
    raise ValueError("bad idl json: %r" % (t,))


def cq_fields(fs):
    return cq_list(["(%s, %s, %s)" % (cq(n), cq_idl(t), cq_comments(c)) for n, t, c in fs])


def cq_custom(c):
    if c["kind"] == "object":
        return "(CObject %s %s %s)" % (cq(c["name"]), cq_fields(c["fields"]), cq_comments(c["comments"]))
    return "(CEnum %s %s %s)" % (cq(c["name"]), cq_list(
        ["(%s, %s)" % (cq(n), cq_comments(cs)) for n, cs in c["variants"]]), cq_comments(c["comments"]))


def cq_error(e):
    return "{| e_name := %s; e_fields := %s; e_comments := %s |}" % (
        cq(e["name"]), cq_fields(e["fields"]), cq_comments(e["comments"]))


def cq_opt(x, f):
    return "None" if x is None else "(Some %s)" % f(x)


# Rust helper module (included by the generated corpus binaries): canonical JSON of idl values.
DUMP_RS = r'''
// GENERATED helper: canonical JSON of zlink idl descriptions.
#![allow(dead_code)]
use serde_json::{json, Value};
use zlink::idl;

pub fn comments<'a>(it: impl Iterator<Item = &'a idl::Comment<'a>>) -> Value {
    Value::Array(it.map(|c| Value::String(c.content().to_string())).collect())
}
pub fn ty(t: &idl::Type<'_>) -> Value {
    match t {
        idl::Type::Bool => json!("bool"),
        idl::Type::Int => json!("int"),
        idl::Type::Float => json!("float"),
        idl::Type::String => json!("string"),
        idl::Type::ForeignObject => json!("object"),
        idl::Type::Optional(i) => json!({"opt": ty(i.inner())}),
        idl::Type::Array(i) => json!({"arr": ty(i.inner())}),
        idl::Type::Map(i) => json!({"map": ty(i.inner())}),
        idl::Type::Custom(n) => json!({"custom": n}),
        idl::Type::Enum(vs) => json!({"enum": vs.iter().map(variant).collect::<Vec<_>>()}),
        idl::Type::Object(fs) => json!({"obj": fs.iter().map(field).collect::<Vec<_>>()}),
    }
}
pub fn variant(v: &idl::EnumVariant<'_>) -> Value {
    json!([v.name(), comments(v.comments())])
}
pub fn field(f: &idl::Field<'_>) -> Value {
    json!([f.name(), ty(f.ty()), comments(f.comments())])
}
pub fn custom(c: &idl::CustomType<'_>) -> Value {
    match c {
        idl::CustomType::Object(o) => json!({"kind": "object", "name": o.name(),
            "fields": o.fields().map(field).collect::<Vec<_>>(), "comments": comments(o.comments())}),
        idl::CustomType::Enum(e) => json!({"kind": "enum", "name": e.name(),
            "variants": e.variants().map(variant).collect::<Vec<_>>(), "comments": comments(e.comments())}),
    }
}
pub fn error(e: &idl::Error<'_>) -> Value {
    json!({"name": e.name(), "fields": e.fields().map(field).collect::<Vec<_>>(),
           "comments": comments(e.comments())})
}
pub fn method(m: &idl::Method<'_>) -> Value {
    json!({"name": m.name(), "inputs": m.inputs().map(field).collect::<Vec<_>>(),
           "outputs": m.outputs().map(field).collect::<Vec<_>>(), "comments": comments(m.comments())})
}
pub fn interface(i: &idl::Interface<'_>) -> Value {
    json!({"name": i.name(), "methods": i.methods().map(method).collect::<Vec<_>>(),
           "types": i.custom_types().map(custom).collect::<Vec<_>>(),
           "errors": i.errors().map(error).collect::<Vec<_>>(), "comments": comments(i.comments())})
}
'''
