"""Shared pieces of the receive-side checks (C01, C07, C17 inbound)."""
import os, re, sys
from vlib import *
import framegen as fg

HEADER = "From ZV Require Import Common.Exec Framing.ReadConn Framing.ReadConnExec.\nOpen Scope N_scope.\n"
RES = {"err:eof": 1000001, "err:overflow": 1000002, "err:io": 1000003}


def constants(ck):
    """Run the constants translator; returns (step, hook_limit, production_limit)."""
    rc, out = sh([sys.executable, os.path.join(VERIF, "translate", "consts.py")])
    m = re.search(r"BUFFER_SIZE=(\d+) MAX_BUFFER_SIZE=(\d+) HOOK_MAX=(\d+)", out)
    if rc != 0 or not m:
        ck.proof_ok, ck.broken, ck.proof_log = False, "translator consts.py: " + out.strip()[-300:], out
        return 256, 4096, 104857600
    ck.samples.append("translated: " + out.strip())
    return int(m.group(1)), int(m.group(3)), int(m.group(2))


def render_case(c, res, codes, step, limit):
    tab = []
    for hx, s in res["segs"].items():
        tab.append("(%s, %d)" % (coq_bytes(bytes.fromhex(hx)), codes[s]))
    expect = []
    for op in res["ops"]:
        expect.append("[%d;%d;%d;%d]" % (codes[op["res"]], op["st"][0], op["st"][1], op["st"][2]))
    return ("{| rc_step := %d; rc_limit := %d; rc_tab := %s; rc_events := %s; rc_n := %d%%nat; "
            "rc_frames := %s; rc_inhyp := %s; rc_expect := %s |}") % (
        step, limit, coq_list(tab), fg.coq_events(c["events"]), c["n"],
        coq_list([coq_bytes(bytes.fromhex(f)) for f in c["frames"]]),
        "true" if c["inhyp"] else "false", coq_list(expect))


def code_table(results):
    codes = dict(RES)
    nxt = 1
    for r in results:
        for s in list(r.get("segs", {}).values()) + [op["res"] for op in r.get("ops", [])]:
            if s not in codes:
                codes[s] = nxt
                nxt += 1
    return codes


