"""C12: generator of the proxy corpus.

A *trait declaration* is a plain JSON-able dict (see `gen_trait`). Everything else is a pure function
of it: `render_trait` gives the Rust source of the `#[proxy]` trait plus one driver function per
(method, call form), `coq_case` gives the Gallina term of one call. So a replay file only has to carry
the declaration.

Abstract declaration (what the Coq model sees):
  iface, method {name, rename, more, oneway, params [{name, rename, shape}]}, argument vector.
Concrete-only details (what only rustc sees): spelled types, lifetimes, generics, Option path style,
attribute order, the form of the #[proxy(...)] attribute.
"""
import json
import os
import re

# ---------------------------------------------------------------------------------------------
# vocabulary

WORDS = ["get", "set", "list", "user", "info", "data", "item", "by", "name", "all", "x", "url",
         "http", "io", "a", "do", "it", "state", "q", "zz", "up", "v", "k9"]
DIGITY = ["2fa", "2", "v2", "3d", "x86", "64", "0", "b1", "9k", "7zip"]
# full method names that would resolve to inherent methods of Connection / Chain, or are keywords
BAD_NAMES = {"id", "read", "write", "split", "flush", "send", "append", "join", "new", "do", "as",
             "in", "if", "fn", "io", "a", "x", "q", "v", "by", "all", "it", "up", "zz", "name",
             "read_mut", "write_mut", "send_call", "call_method", "receive_reply", "receive_call",
             "send_reply", "send_error", "enqueue_call", "chain_call", "get_info"}
PARAM_WORDS = ["id", "name", "user", "count", "flag", "key", "value", "pid", "opt", "mode", "tag",
               "items", "data", "n", "q2", "path", "kind", "size"]
WIRE_NAMES = ["userId", "theName", "allowInteractiveAuthentication", "acquireMetadata", "Count",
              "x-y", "user name", "KEY", "id2", "opt", "name", "méta", "q\"t", "a.b", "0", "type",
              "method", "parameters", "more"]
METHOD_RENAMES = ["GetURL", "List", "Get2FA", "getinfo", "Do_It", "X", "ListAllHTTP", "Ping9",
                  "Résumé", "get", "IPv6Info"]


# raw identifiers: the Rust name (and so the wire name) is the identifier without `r#`
RAW_WORDS = ["r#type", "r#in", "r#match", "r#fn", "r#async", "r#move", "r#ref", "r#loop", "r#struct"]


def unraw(s):
    return s[2:] if s.startswith("r#") else s


def method_name(rng):
    if rng.random() < 0.06:
        return rng.choice(RAW_WORDS)
    for _ in range(100):
        k = rng.choice([1, 2, 2, 3, 3, 4])
        ws = []
        for i in range(k):
            if i > 0 and rng.random() < 0.3:
                ws.append(rng.choice(DIGITY))
            else:
                ws.append(rng.choice(WORDS))
        s = "_".join(ws)
        r = rng.random()
        if r < 0.05:
            s = s.replace("_", "__", 1)       # an empty word inside
        elif r < 0.08:
            s = s + "_"                       # trailing underscore
        if s in BAD_NAMES or s[0].isdigit() or s.startswith("chain_"):
            continue
        return s
    return "get_thing"


# ---------------------------------------------------------------------------------------------
# types. A type descriptor is a list: [kind, ...]. `lt` is None (elided) or "'a" (explicit).

SCALARS = ["bool", "u8", "u32", "i32", "i64", "u64", "f64"]


def gen_elem(rng, allow_opt=False):
    """Element type of a slice / Vec, or the payload of a nested Option: always an owned-or-literal
    type so that the driver can build the value without temporaries."""
    r = rng.random()
    if allow_opt and r < 0.25:
        return ["opt", gen_elem(rng), ""]
    if r < 0.50:
        return [rng.choice(SCALARS)]
    if r < 0.70:
        return ["str"]
    if r < 0.80:
        return ["string"]
    if r < 0.90:
        return ["item"]
    return ["pair"]


def gen_plain_type(rng, allow_gen=True):
    r = rng.random()
    if r < 0.22:
        return [rng.choice(SCALARS)]
    if r < 0.42:
        return ["str"]
    if r < 0.50:
        return ["string"]
    if r < 0.64:
        return ["slice", gen_elem(rng)]
    if r < 0.72:
        return ["vec", gen_elem(rng, allow_opt=True)]
    if r < 0.80:
        return ["item"]
    if r < 0.85:
        return ["item_ref"]
    if r < 0.92:
        return ["pair"]
    if allow_gen:
        return ["gen", rng.choice([["u32"], ["string"], ["bool"], ["i64"], ["item"], ["vec", ["u8"]]])]
    return [rng.choice(SCALARS)]


def gen_type(rng):
    """Type of a method parameter."""
    if rng.random() < 0.32:
        path = rng.choice(["", "", "", "std::option::", "core::option::"])
        if rng.random() < 0.08:
            return ["opt", ["opt", [rng.choice(SCALARS)], ""], path]
        return ["opt", gen_plain_type(rng, allow_gen=False), path]
    return gen_plain_type(rng)


def owned_type(t):
    """Type of the local binding the driver builds before the call."""
    k = t[0]
    if k == "slice":
        return "Vec<%s>" % rust_type(t[1], None)
    if k == "item_ref":
        return "Item"
    if k == "opt" and t[1][0] in ("slice", "item_ref"):
        return "Option<%s>" % owned_type(t[1])
    if k == "gen":
        return rust_type(t[1], None)
    return rust_type(t, None)


def owned_value(t, v):
    k = t[0]
    if k == "slice":
        return rust_value(["vec", t[1]], v)
    if k == "item_ref":
        return rust_value(["item"], v)
    if k == "opt" and t[1][0] in ("slice", "item_ref"):
        return "None" if v[0] == "none" else "Some(%s)" % owned_value(t[1], v[1])
    return rust_value(t, v)


def pass_expr(t, name):
    k = t[0]
    if k in ("slice", "item_ref"):
        return "&" + name
    if k == "opt" and t[1][0] == "slice":
        return name + ".as_deref()"
    if k == "opt" and t[1][0] == "item_ref":
        return name + ".as_ref()"
    return name


def has_ref(t):
    k = t[0]
    if k in ("str", "slice", "item_ref", "pair"):
        return True
    if k in ("opt", "vec"):
        return has_ref(t[1])
    return False


def rust_type(t, lt, gname=None):
    """Spelled Rust type. lt: None => elided lifetimes, else the lifetime name to use."""
    k = t[0]
    amp = "&" if lt is None else "&%s " % lt
    if k in SCALARS:
        return k
    if k == "str":
        return amp + "str"
    if k == "string":
        return "String"
    if k == "opt":
        if t[2] == "(":            # a parenthesised type is the same type: `(Option<u32>)`
            return "(Option<%s>)" % rust_type(t[1], lt, gname)
        return "%sOption<%s>" % (t[2], rust_type(t[1], lt, gname))
    if k == "slice":
        return "%s[%s]" % (amp, rust_type(t[1], lt, gname))
    if k == "vec":
        return "Vec<%s>" % rust_type(t[1], lt, gname)
    if k == "item":
        return "Item"
    if k == "item_ref":
        return amp + "Item"
    if k == "pair":
        return "Pair<%s>" % ("'_" if lt is None else lt)
    if k == "gen":
        return gname
    raise ValueError(k)


def shape_of(t):
    """Abstract value shape for the Coq model."""
    k = t[0]
    if k == "bool":
        return "ShBool"
    if k in ("u8", "u32", "i32", "i64", "u64", "f64"):
        return "ShNum"
    if k in ("str", "string"):
        return "ShStr"
    if k == "opt":
        return "(ShOpt %s)" % shape_of(t[1])
    if k in ("slice", "vec"):
        return "ShSeq"
    if k in ("item", "item_ref", "pair"):
        return "ShRec"
    if k == "gen":
        return "ShAny"
    raise ValueError(k)


STRINGS = ["", "n", "alice", "a b", "q\"uote", "back\\slash", "line\nbreak", "tab\t", "héllo", "日本",
           "x" * 40, "null", "{}", "\u0001ctl", "/run/x.sock", "0"]
FLOATS = ["0.5", "-2.25", "1.0", "3.125", "100.0", "-0.75"]


def gen_value(rng, t, none_bias=None):
    """A value of type t: ["none"] | ["some", v] | ["b", bool] | ["n", "digits"] | ["s", str] |
    ["arr", [v..]] | ["obj", [[key, v]..]]. Numbers are kept as their token text."""
    k = t[0]
    if k == "bool":
        return ["b", rng.random() < 0.5]
    if k == "u8":
        return ["n", str(rng.choice([0, 1, 7, 255, rng.randrange(256)]))]
    if k == "u32":
        return ["n", str(rng.choice([0, 1, 42, 4294967295, rng.randrange(1 << 32)]))]
    if k == "i32":
        return ["n", str(rng.choice([0, -1, 2147483647, -2147483648, rng.randrange(-1000, 1000)]))]
    if k == "i64":
        return ["n", str(rng.choice([0, -1, 9223372036854775807, -9223372036854775808,
                                     rng.randrange(-10 ** 12, 10 ** 12)]))]
    if k == "u64":
        return ["n", str(rng.choice([0, 18446744073709551615, rng.randrange(1 << 63)]))]
    if k == "f64":
        return ["n", rng.choice(FLOATS)]
    if k in ("str", "string"):
        return ["s", rng.choice(STRINGS)]
    if k == "opt":
        p = 0.4 if none_bias is None else none_bias
        if rng.random() < p:
            return ["none"]
        return ["some", gen_value(rng, t[1], none_bias)]
    if k in ("slice", "vec"):
        return ["arr", [gen_value(rng, t[1]) for _ in range(rng.choice([0, 1, 2, 3]))]]
    if k in ("item", "item_ref"):
        return ["obj", [["id", gen_value(rng, ["u32"])], ["name", gen_value(rng, ["string"])],
                        ["tags", gen_value(rng, ["vec", ["string"]])],
                        ["note", gen_value(rng, ["opt", ["string"], ""])]]]
    if k == "pair":
        return ["obj", [["key", gen_value(rng, ["str"])], ["n", gen_value(rng, ["i64"])]]]
    if k == "gen":
        return gen_value(rng, t[1])
    raise ValueError(k)


def rust_str(s):
    out = []
    for ch in s:
        o = ord(ch)
        if ch == '"':
            out.append('\\"')
        elif ch == "\\":
            out.append("\\\\")
        elif 32 <= o < 127:
            out.append(ch)
        else:
            out.append("\\u{%x}" % o)
    return '"' + "".join(out) + '"'


def rust_value(t, v):
    """Rust expression of type `t` (spelled with elided lifetimes) for value v."""
    k = t[0]
    if k == "bool":
        return "true" if v[1] else "false"
    if k in ("u8", "u32", "i32", "i64", "u64"):
        return "(%s%s)" % (v[1], k)
    if k == "f64":
        return "(%sf64)" % v[1]
    if k == "str":
        return rust_str(v[1])
    if k == "string":
        return "String::from(%s)" % rust_str(v[1])
    if k == "opt":
        if v[0] == "none":
            return "None"
        return "Some(%s)" % rust_value(t[1], v[1])
    if k == "slice":
        if not v[1]:
            return "&[]"
        return "&[%s]" % ", ".join(rust_value(t[1], x) for x in v[1])
    if k == "vec":
        if not v[1]:
            return "Vec::new()"
        return "vec![%s]" % ", ".join(rust_value(t[1], x) for x in v[1])
    if k in ("item", "item_ref"):
        f = dict((a, b) for a, b in v[1])
        e = "Item { id: %s, name: %s, tags: %s, note: %s }" % (
            rust_value(["u32"], f["id"]), rust_value(["string"], f["name"]),
            rust_value(["vec", ["string"]], f["tags"]), rust_value(["opt", ["string"], ""], f["note"]))
        return ("&" + e) if k == "item_ref" else e
    if k == "pair":
        f = dict((a, b) for a, b in v[1])
        return "Pair { key: %s, n: %s }" % (rust_value(["str"], f["key"]), rust_value(["i64"], f["n"]))
    if k == "gen":
        return rust_value(t[1], v)
    raise ValueError(k)


# ---------------------------------------------------------------------------------------------
# declarations

def gen_method(rng, used_names):
    for _ in range(50):
        name = method_name(rng)
        if name not in used_names and pascal(name) not in {pascal(u) for u in used_names}:
            break
    used_names.add(name)
    r = rng.random()
    more = r < 0.15
    oneway = 0.15 <= r < 0.27
    np = rng.choice([0, 0, 1, 1, 2, 2, 3, 4])
    params, pn = [], set()
    explicit = rng.random() < 0.4
    for i in range(np):
        while True:
            w = rng.choice(PARAM_WORDS)
            r = rng.random()
            if r < 0.4:
                w = w + "_" + rng.choice(PARAM_WORDS)
            elif r < 0.52:
                w = rng.choice(RAW_WORDS)
            elif r < 0.62:
                w = rng.choice(LOCAL_LIKE)
            if w not in pn:
                break
        pn.add(w)
        t = gen_type(rng)
        p = {"name": w, "rename": None, "ty": t}
        if rng.random() < 0.35:
            p["rename"] = rng.choice(WIRE_NAMES)
        params.append(p)
    # wire names must be distinct (a serde struct with two fields of the same name is the user's bug)
    seen = set()
    for p in params:
        wn = p["rename"] if p["rename"] is not None else unraw(p["name"])
        if wn in seen:
            p["rename"] = None
            wn = unraw(p["name"])
            if wn in seen:
                p["rename"] = wn + "X"
                wn = p["rename"]
        seen.add(wn)
    # generic type parameters: one per generic-typed parameter
    gi = 0
    for p in params:
        if p["ty"][0] == "gen":
            p["gname"] = ["T", "U", "V", "W"][gi]
            gi += 1
    uses_ref = any(has_ref(p["ty"]) for p in params)
    nref = sum(1 for p in params if has_ref(p["ty"]))
    m = {
        "name": name,
        "rename": rng.choice(METHOD_RENAMES) if rng.random() < 0.3 else None,
        "more": more, "oneway": oneway,
        "lifetimes": ("explicit2" if (nref >= 2 and rng.random() < 0.6) else "explicit")
                     if (explicit and uses_ref) else "elided",
        "bounds": rng.choice(["inline", "where"]),
        "attr_order": rng.random() < 0.5,       # `rename` before or after more/oneway
        "out": "unit" if (oneway or rng.random() < 0.3) else "out",
        "params": params,
    }
    if rng.random() < 0.15:
        m["style"] = "future"
    if m["out"] == "out" and m["lifetimes"] == "elided" and rng.random() < 0.25:
        m["out"] = "outb"           # output borrowing from the connection: OutB<'_>
    return m


def gen_args(rng, m, how):
    """One argument vector. how: 'rand' | 'none' (every Option None) | 'some' (every Option Some)."""
    bias = {"rand": None, "none": 1.0, "some": 0.0}[how]
    return [gen_value(rng, p["ty"], bias) for p in m["params"]]


def gen_trait(rng, tid, ncalls):
    nm = rng.choice([1, 2, 3, 3, 4])
    used = set()
    methods = [gen_method(rng, used) for _ in range(nm)]
    for m in methods:
        hows = ["rand"] * ncalls
        if any(p["ty"][0] == "opt" for p in m["params"]):
            hows[0] = "none"
            if ncalls > 1:
                hows[1] = "some"
        if not m["params"]:
            hows = ["rand"]
        m["calls"] = [gen_args(rng, m, h) for h in hows]
    seg = rng.choice(["org.example", "io.systemd", "com.x_y.a-b", "org.varlinkish.v2"])
    t = {
        "tid": tid,
        "trait": "T%dProxy" % tid,
        "iface": "%s.T%d" % (seg, tid),
        "attr": rng.choice(["lit", "lit", "kv", "kv_crate", "kv_chain"]),
        "methods": methods,
    }
    return t


def corpus_fixed():
    """Hand-written declarations that are always part of the corpus (the shapes the property's
    text names explicitly)."""
    def P(name, ty, rename=None):
        return {"name": name, "rename": rename, "ty": ty}

    def M(name, params, calls, **kw):
        m = {"name": name, "rename": None, "more": False, "oneway": False, "lifetimes": "elided",
             "bounds": "inline", "attr_order": True, "out": "out", "params": params, "calls": calls}
        m.update(kw)
        return m
    u32o = ["opt", ["u32"], ""]
    stro = ["opt", ["str"], ""]
    t0 = {"tid": 0, "trait": "T0Proxy", "iface": "org.example.T0", "attr": "lit", "methods": [
        M("do_it", [P("name", ["str"], "theName"), P("opt", u32o)],
          [[["s", "n"], ["none"]], [["s", "n"], ["some", ["n", "7"]]]]),
        M("get_2fa", [], [[]]),
        M("list_all", [P("a", u32o), P("b", stro, "B")],
          [[["none"], ["none"]], [["some", ["n", "1"]], ["some", ["s", "x"]]]]),
        M("watch_2_things", [P("kind", ["str"])], [[["s", "k"]]], more=True),
        M("paren_opt", [P("a", ["opt", ["u32"], "("]), P("b", ["opt", ["str"], "("], "B")],
          [[["none"], ["none"]], [["some", ["n", "1"]], ["none"]], [["none"], ["some", ["s", "x"]]]]),
        M("get_url", [P("id", ["u64"])], [[["n", "18446744073709551615"]]], rename="GetURL", out="outb"),
        M("pair_up", [P("left", ["str"], "l"), P("right", ["opt", ["slice", ["str"]], ""])],
          [[["s", "x"], ["none"]], [["s", "x"], ["some", ["arr", [["s", "p"], ["s", "q"]]]]]],
          lifetimes="explicit2", out="unit"),
        M("notify", [P("msg", ["string"], "message"), P("prio", u32o)],
          [[["s", "hi"], ["none"]], [["s", "hi"], ["some", ["n", "3"]]]], oneway=True, out="unit"),
    ]}
    t1 = {"tid": 1, "trait": "T1Proxy", "iface": "io.systemd.Machine", "attr": "kv_chain", "methods": [
        M("list", [P("name", ["str"]), P("pid", ["opt", ["pair"], ""]),
                   P("allow_interactive_authentication", ["opt", ["bool"], ""],
                     "allowInteractiveAuthentication"),
                   P("acquire_metadata", ["opt", ["string"], "std::option::"], "acquireMetadata")],
          [[["s", "m"], ["none"], ["none"], ["none"]],
           [["s", "m"], ["some", ["obj", [["key", ["s", "k"]], ["n", ["n", "5"]]]]],
            ["some", ["b", True]], ["some", ["s", "yes"]]]]),
        M("list_more", [P("name", stro), P("acquire_metadata", ["opt", ["string"], ""], "acquireMetadata")],
          [[["none"], ["none"]], [["some", ["s", "z"]], ["none"]]], more=True, rename="List",
          attr_order=False),
        M("store", [P("key", ["str"]), P("value", ["gen", ["u32"]])], [[["s", "k"], ["n", "9"]]],
          lifetimes="explicit", out="unit"),
        M("store_where", [P("key", ["str"], "Key"), P("value", ["gen", ["string"]])],
          [[["s", "k"], ["s", "v"]]], bounds="where", out="unit"),
    ]}
    # raw identifiers as parameter and method names, with and without rename, with Option
    t2 = {"tid": 2, "trait": "T2Proxy", "iface": "org.example.Raw", "attr": "lit", "methods": [
        M("set_kind", [P("r#type", ["str"]), P("r#in", u32o), P("r#match", ["str"], "match_"),
                       P("r#fn", stro, "fn")],
          [[["s", "t"], ["none"], ["s", "m"], ["none"]],
           [["s", "t"], ["some", ["n", "4"]], ["s", "m"], ["some", ["s", "f"]]]], out="unit"),
        M("watch_kind", [P("r#async", ["opt", ["bool"], "core::option::"]), P("r#move", ["u32"])],
          [[["none"], ["n", "1"]], [["some", ["b", True]], ["n", "2"]]], more=True),
        M("tell", [P("r#loop", ["string"]), P("r#ref", u32o)],
          [[["s", "l"], ["none"]], [["s", "l"], ["some", ["n", "9"]]]], oneway=True, out="unit"),
        M("r#type", [P("r#struct", ["str"])], [[["s", "s"]]], oneway=True, out="unit"),
        M("r#match", [P("r#in", stro), P("id", ["u32"])],
          [[["none"], ["n", "1"]], [["some", ["s", "i"]], ["n", "2"]]]),
        M("r#async", [], [[]], more=True),
    ]}
    for t in (t0, t1, t2):
        for m in t["methods"]:
            gi = 0
            for p in m["params"]:
                if p["ty"][0] == "gen":
                    p["gname"] = ["T", "U", "V", "W"][gi]
                    gi += 1
    # a trait the macro must REJECT: a parameter attribute with a key it does not know next to `rename`
    # (until /repo's repair of extract_zlink_attrs the error was swallowed together with the rename, and the
    # argument went out under its Rust name)
    t3 = {"tid": 3, "trait": "T3Proxy", "iface": "org.example.T3", "attr": "lit", "expect_reject": True,
          "expect_error": "unknown zlink attribute", "methods": [
        M("get", [dict(P("key", ["str"], "Key"), attr_extra=", typo")], [[["s", "k"]]]),
    ]}
    # ... and a parameter that has no name: `_: u32` (it used to be left out of the call silently)
    t4 = {"tid": 4, "trait": "T4Proxy", "iface": "org.example.T4", "attr": "lit", "expect_reject": True,
          "expect_error": "must be named by an identifier", "methods": [
        M("put", [P("_", ["u32"]), P("name", ["str"])], [[["n", "5"], ["s", "n"]]]),
    ]}
    return [t0, t1, t2, t3, t4]


# identifiers a user may well pick for a parameter and that generated code is likely to use itself;
# the list actually used is this one plus what translate/macro_locals.py extracts from the macro
# sources on every run
LOCAL_LIKE = ["method", "parameters", "params", "call", "method_call", "reply", "result", "connection",
              "conn", "chain", "stream", "error", "err", "socket", "this", "item", "value", "args",
              "output", "replies", "interface", "name", "more", "oneway", "request"]
RUST_KEYWORDS = {"self", "type", "fn", "in", "match", "move", "ref", "loop", "struct", "async", "await",
                 "mod", "use", "let", "mut", "pub", "impl", "for", "if", "else", "enum", "trait", "where",
                 "while", "as", "break", "const", "continue", "crate", "dyn", "extern", "false", "true",
                 "return", "static", "super", "unsafe", "Self", "abstract", "become", "box", "do", "final",
                 "macro", "override", "priv", "typeof", "unsized", "virtual", "yield", "try", "gen"}


def corpus_locals(names, first_tid):
    """Traits whose parameters are NAMED like the identifiers the macro's expansion uses for its own
    locals (hygiene): each name once as the only `&str` parameter of a regular method (all three call
    forms), and again, with the other types, in groups of three in regular / streaming / oneway
    methods. The value on the wire must be the caller's."""
    names = [n for n in dict.fromkeys(list(names) + LOCAL_LIKE)
             if re.fullmatch(r"[a-z_][a-z0-9_]*", n) and n not in RUST_KEYWORDS and n != "_"]
    stro = ["opt", ["str"], ""]
    tys = [["string"], stro, ["u32"], ["str"], ["opt", ["u64"], "core::option::"], ["i64"]]

    def val(t, i, none=False):
        if t[0] == "opt":
            return ["none"] if none else ["some", val(t[1], i)]
        if t[0] in ("str", "string"):
            return ["s", "caller-%d" % i]
        return ["n", str(1000 + i)]
    methods = []
    for i, n in enumerate(names):
        methods.append({"name": "take_%d" % i, "rename": None, "more": False, "oneway": False,
                        "lifetimes": "elided", "bounds": "inline", "attr_order": True,
                        "out": "out" if i % 2 else "unit",
                        "params": [{"name": n, "rename": None, "ty": ["str"]}],
                        "calls": [[["s", "Ping"]], [["s", "caller-%d" % i]]]})
    for g in range(0, len(names), 3):
        grp = names[g:g + 3]
        ps = [{"name": n, "rename": None, "ty": tys[(g + j) % len(tys)]} for j, n in enumerate(grp)]
        kind = (g // 3) % 3
        methods.append({"name": "group_%d" % g, "rename": None, "more": kind == 1, "oneway": kind == 2,
                        "lifetimes": "elided", "bounds": "inline", "attr_order": True,
                        "out": "unit" if kind == 2 else "out", "params": ps,
                        "calls": [[val(p["ty"], g + j) for j, p in enumerate(ps)],
                                  [val(p["ty"], g + j, none=True) for j, p in enumerate(ps)]]})
    traits = []
    for k in range(0, len(methods), 6):
        tid = first_tid + len(traits)
        traits.append({"tid": tid, "trait": "T%dProxy" % tid, "iface": "org.example.Registry%d" % tid,
                       "attr": "lit", "methods": methods[k:k + 6]})
    return traits


def gen_corpus(rng, ntraits, ncalls):
    ts = corpus_fixed()
    for i in range(len(ts), ntraits):
        ts.append(gen_trait(rng, i, ncalls))
    return ts


# ---------------------------------------------------------------------------------------------
# the conversion as the *specification* reads it (Python mirror used only to avoid generating
# two methods with the same wire name; the comparison itself is done by Coq)

def pascal(s):
    return "".join(w[:1].upper() + w[1:].lower() for w in unraw(s).split("_"))


# ---------------------------------------------------------------------------------------------
# Rust rendering

def forms_of(m):
    """Call forms the macro generates for this method (proxy.rs / chain_method.rs:25 /
    chain_extension.rs:24)."""
    f = ["plain"]
    if not m["oneway"]:
        f.append("chain")
    if not m["oneway"] and not m["more"]:
        f.append("ext")
    return f


def param_lifetimes(m):
    """Lifetime name used for each parameter's type (None = elided)."""
    if m["lifetimes"] == "elided":
        return [None] * len(m["params"])
    if m["lifetimes"] == "explicit":
        return ["'a"] * len(m["params"])
    out, i = [], 0
    for p in m["params"]:           # explicit2: reference-carrying parameters alternate 'a / 'b
        if has_ref(p["ty"]):
            out.append(["'a", "'b"][i % 2])
            i += 1
        else:
            out.append("'a")
    return out


def out_type(m):
    return {"unit": "()", "out": "Out", "outb": "OutB<'_>"}[m["out"]]


def render_method_sig(m):
    lts = param_lifetimes(m)
    attrs = []
    parts = []
    if m["rename"] is not None:
        parts.append("rename = %s" % rust_str(m["rename"]))
    flag = "more" if m["more"] else ("oneway" if m["oneway"] else None)
    if flag:
        if m["attr_order"]:
            parts.append(flag)
        else:
            parts.insert(0, flag)
    if parts:
        attrs.append("    #[zlink(%s)]" % ", ".join(parts))
    gens = []
    if m["lifetimes"] == "explicit":
        gens.append("'a")
    elif m["lifetimes"] == "explicit2":
        gens += ["'a", "'b"]
    wh = []
    for p in m["params"]:
        if p["ty"][0] == "gen":
            if m["bounds"] == "inline":
                gens.append("%s: Serialize + std::fmt::Debug" % p["gname"])
            else:
                gens.append(p["gname"])
                wh.append("%s: Serialize + std::fmt::Debug" % p["gname"])
    g = "<%s>" % ", ".join(gens) if gens else ""
    ps = ["&mut self"]
    for p, lt in zip(m["params"], lts):
        a = ("#[zlink(rename = %s%s)] " % (rust_str(p["rename"]), p.get("attr_extra", ""))) if p["rename"] is not None else ""
        ps.append("%s%s: %s" % (a, p["name"], rust_type(p["ty"], lt, p.get("gname"))))
    out_t = out_type(m)
    if m["oneway"]:
        ret = "zlink::Result<()>"
    elif m["more"]:
        ret = "zlink::Result<impl Stream<Item = zlink::Result<Result<%s, MErr>>>>" % out_t
    else:
        ret = "zlink::Result<Result<%s, MErr>>" % out_t
    w = ("\n    where\n        %s" % ",\n        ".join(wh)) if wh else ""
    kw = "async fn"
    if m.get("style") == "future":       # "Can be either `async fn` or return `impl Future`"
        kw = "fn"
        ret = "impl std::future::Future<Output = %s>" % ret
    return "%s\n    %s %s%s(\n        %s,\n    ) -> %s%s;" % (
        "\n".join(attrs), kw, m["name"], g, ",\n        ".join(ps), ret, w)


def render_trait(t):
    """Rust source of module `t<tid>`: the trait and one driver fn per (method, form)."""
    tid = t["tid"]
    if t["attr"] == "lit":
        attr = "#[proxy(%s)]" % rust_str(t["iface"])
    elif t["attr"] == "kv":
        attr = "#[proxy(interface = %s)]" % rust_str(t["iface"])
    elif t["attr"] == "kv_crate":
        attr = "#[proxy(interface = %s, crate = \"::zlink\")]" % rust_str(t["iface"])
    else:
        attr = "#[proxy(interface = %s, chain_name = \"T%dChained\")]" % (rust_str(t["iface"]), tid)
    chain_trait = "T%dChained" % tid if t["attr"] == "kv_chain" else t["trait"] + "Chain"
    L = ["pub mod t%d {" % tid, "    use super::*;", "    " + attr, "    pub trait %s {" % t["trait"]]
    for m in t["methods"]:
        L.append(render_method_sig(m))
    L.append("    }")
    for mi, m in enumerate(t["methods"]):
        out_t = out_type(m)
        np = len(m["params"])
        names = ["a%d" % i for i in range(np)]
        # argument vectors: a match on k binding a0..an
        arms = []
        for k, call in enumerate(m["calls"]):
            vals = [owned_value(p["ty"], v) for p, v in zip(m["params"], call)]
            arms.append("            %d => (%s)," % (k, "".join(v + ", " for v in vals)))
        tys = "".join(owned_type(p["ty"]) + ", " for p in m["params"])
        bind = ("        let (%s): (%s) = match k {\n%s\n            _ => unreachable!(),\n        };" % (
            "".join(n + ", " for n in names), tys, "\n".join(arms))) if np else "        let _ = k;"
        args = ", ".join(pass_expr(p["ty"], n) for p, n in zip(m["params"], names))
        for form in forms_of(m):
            L.append("    pub fn m%d_%s(k: usize, reply: &[u8]) -> Rec {" % (mi, form))
            L.append(bind)
            L.append("        let (sock, sh) = SSock::new(reply);")
            L.append("        let mut conn = Connection::new(sock);")
            if form == "plain":
                if m["oneway"]:
                    L.append("        let out = vec![match run(conn.%s(%s)) { Some(Ok(())) => \"sent\".to_string(), "
                             "Some(Err(e)) => err_name(&e), None => \"stuck\".to_string() }];" % (m["name"], args))
                elif m["more"]:
                    L.append("        let out = match run(conn.%s(%s)) {" % (m["name"], args))
                    L.append("            None => vec![\"stuck\".to_string()],")
                    L.append("            Some(Err(e)) => vec![format!(\"call:{}\", err_name(&e))],")
                    L.append("            Some(Ok(stream)) => { let mut stream = std::pin::pin!(stream); "
                             "let mut v = Vec::new(); "
                             "while v.len() < 16 { match run(stream.next()) { Some(Some(it)) => v.push(canon_out(it)), "
                             "Some(None) => { v.push(\"end\".to_string()); break } None => { v.push(\"stuck\".to_string()); break } } } v }")
                    L.append("        };")
                else:
                    L.append("        let out = vec![match run(conn.%s(%s)) { Some(r) => canon_out(r), "
                             "None => \"stuck\".to_string() }];" % (m["name"], args))
            else:
                if form == "chain":
                    # generics of chain_<m>: 'c, method generics..., ReplyParams, ReplyError
                    holes = "".join("_, " for p in m["params"] if p["ty"][0] == "gen")
                    start = "conn.chain_%s::<%s%s, MErr>(%s)" % (unraw(m["name"]), holes, out_t, args)
                else:
                    start = ("conn.chain_call::<Dummy, %s, MErr>(&Call::new(Dummy::Ping))"
                             ".and_then(|c| c.%s(%s))" % (out_t, m["name"], args))
                L.append("        let out = match %s {" % start)
                L.append("            Err(e) => vec![format!(\"call:{}\", err_name(&e))],")
                L.append("            Ok(chain) => match run(chain.send()) {")
                L.append("                None => vec![\"stuck\".to_string()],")
                L.append("                Some(Err(e)) => vec![format!(\"send:{}\", err_name(&e))],")
                L.append("                Some(Ok(stream)) => { let mut stream = std::pin::pin!(stream); "
                         "let mut v = Vec::new(); "
                         "while v.len() < 16 { match run(stream.next()) { Some(Some(it)) => v.push(canon_low(it)), "
                         "Some(None) => { v.push(\"end\".to_string()); break } None => { v.push(\"stuck\".to_string()); break } } } v }")
                L.append("            },")
                L.append("        };")
            low_t = "NoOut" if (form == "plain" and m["out"] == "unit") else out_t
            L.append("        let low = low_seq!(%s, MErr, reply, 18);" % low_t)
            L.append("        let frames = sh.borrow().frames();")
            L.append("        Rec { frames, out, low }")
            L.append("    }")
    L.append("}")
    return "\n".join(L)


PRELUDE = r'''//! GENERATED by /verif/lib/proxygen.py (C12) - shared pieces of the proxy corpus. Do not edit.
#![allow(dead_code, unused_imports)]
use std::{
    cell::RefCell,
    future::Future,
    hash::{Hash, Hasher},
    rc::Rc,
    task::{Context, Poll, Waker},
};
pub use futures_util::stream::{Stream, StreamExt};
pub use serde::{Deserialize, Serialize};
pub use zlink::{
    connection::socket::{ReadHalf, Socket, WriteHalf},
    proxy, Call, Connection, ReplyError,
};

pub fn hex(b: &[u8]) -> String {
    let mut s = String::with_capacity(b.len() * 2);
    for x in b {
        s.push_str(&format!("{:02x}", x));
    }
    s
}

pub fn unhex(s: &str) -> Vec<u8> {
    (0..s.len() / 2)
        .map(|i| u8::from_str_radix(&s[2 * i..2 * i + 2], 16).unwrap())
        .collect()
}

/// Deterministic 64-bit digest of a string (SipHash with fixed zero keys).
pub fn digest(s: &str) -> String {
    #[allow(deprecated)]
    let mut h = std::hash::SipHasher::new();
    s.hash(&mut h);
    format!("{:016x}", h.finish())
}

/// Read side: the scripted bytes, then end of stream. Write side: records every write.
#[derive(Debug, Default)]
pub struct Script {
    pub data: Vec<u8>,
    pub pos: usize,
    pub writes: Vec<Vec<u8>>,
}

impl Script {
    /// The NUL-terminated frames written so far (hex), plus a marker for an unterminated rest.
    pub fn frames(&self) -> Vec<String> {
        let all: Vec<u8> = self.writes.iter().flatten().copied().collect();
        let mut out = Vec::new();
        let mut cur = Vec::new();
        for b in all {
            if b == 0 {
                out.push(hex(&cur));
                cur.clear();
            } else {
                cur.push(b);
            }
        }
        if !cur.is_empty() {
            out.push(format!("unterminated:{}", hex(&cur)));
        }
        out
    }
}

pub type Shared = Rc<RefCell<Script>>;
#[derive(Debug)]
pub struct SSock(pub Shared);
#[derive(Debug)]
pub struct SRead(pub Shared);
#[derive(Debug)]
pub struct SWrite(pub Shared);

impl SSock {
    pub fn new(reply: &[u8]) -> (Self, Shared) {
        let sh = Rc::new(RefCell::new(Script {
            data: reply.to_vec(),
            ..Default::default()
        }));
        (SSock(sh.clone()), sh)
    }
}

impl Socket for SSock {
    type ReadHalf = SRead;
    type WriteHalf = SWrite;
    fn split(self) -> (SRead, SWrite) {
        (SRead(self.0.clone()), SWrite(self.0))
    }
}

impl ReadHalf for SRead {
    fn read(&mut self, buf: &mut [u8]) -> impl Future<Output = zlink::Result<usize>> {
        let sh = self.0.clone();
        std::future::poll_fn(move |_cx| {
            let mut s = sh.borrow_mut();
            let n = (s.data.len() - s.pos).min(buf.len());
            let p = s.pos;
            buf[..n].copy_from_slice(&s.data[p..p + n]);
            s.pos += n;
            Poll::Ready(Ok(n))
        })
    }
}

impl WriteHalf for SWrite {
    fn write(&mut self, buf: &[u8]) -> impl Future<Output = zlink::Result<()>> {
        let sh = self.0.clone();
        std::future::poll_fn(move |_cx| {
            sh.borrow_mut().writes.push(buf.to_vec());
            Poll::Ready(Ok(()))
        })
    }
}

/// Drive a future to completion with a no-op waker; None if it is still pending after many polls.
pub fn run<F: Future>(f: F) -> Option<F::Output> {
    let mut f = std::pin::pin!(f);
    let mut cx = Context::from_waker(Waker::noop());
    for _ in 0..10_000 {
        if let Poll::Ready(v) = f.as_mut().poll(&mut cx) {
            return Some(v);
        }
    }
    None
}

pub fn err_name(e: &zlink::Error) -> String {
    use zlink::Error as E;
    match e {
        E::SocketRead | E::SocketWrite | E::Io(_) => "err:io".into(),
        E::BufferOverflow => "err:overflow".into(),
        E::Json(_) => "err:json".into(),
        E::UnexpectedEof => "err:eof".into(),
        E::VarlinkService(v) => format!("err:vs:{}", digest(&format!("{:?}", v))),
        E::MissingParameters => "err:missing".into(),
        other => format!("err:other:{}", digest(&format!("{:?}", other))),
    }
}

/// Digest of a decoded parameters value ("unit" for `()`).
pub fn pdigest<P: std::fmt::Debug>(p: &P) -> String {
    let d = format!("{:?}", p);
    if d == "()" {
        "unit".into()
    } else {
        digest(&d)
    }
}

/// Outcome of a proxy method: Ok(Ok(output)) / Ok(Err(error)) / Err(_).
pub fn canon_out<P: std::fmt::Debug, E: std::fmt::Debug>(r: zlink::Result<Result<P, E>>) -> String {
    match r {
        Ok(Ok(p)) => format!("ok:{}", pdigest(&p)),
        Ok(Err(e)) => format!("merr:{}", digest(&format!("{:?}", e))),
        Err(e) => err_name(&e),
    }
}

/// Classification by the low-level receive: reply (parameters digest or none, continues) / error.
pub fn canon_low<P: std::fmt::Debug, E: std::fmt::Debug>(
    r: zlink::Result<zlink::reply::Result<P, E>>,
) -> String {
    match r {
        Ok(Ok(rep)) => format!(
            "reply:{}:{}",
            match rep.parameters() {
                Some(p) => pdigest(p),
                None => "none".into(),
            },
            match rep.continues() {
                Some(true) => "t",
                Some(false) => "f",
                None => "n",
            }
        ),
        Ok(Err(e)) => format!("merr:{}", digest(&format!("{:?}", e))),
        Err(e) => err_name(&e),
    }
}

/// The low-level classification of the same reply bytes: `receive_reply` repeated on a fresh
/// connection until a connection-level error other than a standard service error (at most $n times).
#[macro_export]
macro_rules! low_seq {
    ($p:ty, $e:ty, $reply:expr, $n:expr) => {{
        let (sock, _sh) = SSock::new($reply);
        let mut conn = Connection::new(sock);
        let mut v: Vec<String> = Vec::new();
        for _ in 0..$n {
            let s = match run(conn.receive_reply::<$p, $e>()) {
                Some(r) => canon_low(r),
                None => "stuck".to_string(),
            };
            // a standard service error (err:vs:..) is the reply to one call; the connection goes on
            let stop = (s.starts_with("err:") && !s.starts_with("err:vs:")) || s == "stuck";
            v.push(s);
            if stop {
                break;
            }
        }
        v
    }};
}

#[derive(Debug, Clone, Serialize, Deserialize)]
pub struct Item {
    pub id: u32,
    pub name: String,
    pub tags: Vec<String>,
    pub note: Option<String>,
}

#[derive(Debug, Clone, Serialize)]
pub struct Pair<'a> {
    pub key: &'a str,
    pub n: i64,
}

#[derive(Debug, Deserialize)]
pub struct OutB<'a> {
    #[serde(borrow)]
    pub s: &'a str,
    pub n: i64,
}

#[derive(Debug, Deserialize)]
pub struct Out {
    pub a: i64,
    #[serde(default)]
    pub b: Option<String>,
}

/// What the macro decodes the reply parameters of a method returning `()` as (method_impl.rs:
/// `struct NoOutputParameters {}`); the low-level classification of such a method's replies is
/// taken with the same shape.
#[derive(Debug, Deserialize)]
pub struct NoOut {}

#[derive(Debug, ReplyError)]
#[zlink(interface = "org.example.err")]
pub enum MErr {
    NotFound { id: u32 },
    Busy,
}

/// First call of the chains that the chain-extension forms extend.
#[derive(Debug, Serialize)]
#[serde(tag = "method", content = "parameters")]
pub enum Dummy {
    #[serde(rename = "org.example.dummy.Ping")]
    Ping,
}

#[derive(Debug)]
pub struct Rec {
    pub frames: Vec<String>,
    pub out: Vec<String>,
    pub low: Vec<String>,
}

pub type CallFn = fn(usize, &[u8]) -> Rec;

/// stdin: one JSON object per line {"id":n,"f":"t3.m1_chain","k":0,"reply":"<hex>"};
/// stdout: {"id":n,"frames":[..],"out":[..],"low":[..]} or {"id":n,"panic":true}.
pub fn serve(table: &[(&str, CallFn)]) {
    use std::io::{BufRead, Write};
    std::panic::set_hook(Box::new(|_| {}));
    let stdin = std::io::stdin();
    let stdout = std::io::stdout();
    let mut o = stdout.lock();
    for line in stdin.lock().lines() {
        let line = line.unwrap();
        if line.trim().is_empty() {
            continue;
        }
        let c: serde_json::Value = serde_json::from_str(&line).unwrap();
        let id = c["id"].as_u64().unwrap();
        let f = c["f"].as_str().unwrap();
        let k = c["k"].as_u64().unwrap() as usize;
        let reply = unhex(c["reply"].as_str().unwrap());
        let Some((_, func)) = table.iter().find(|(n, _)| *n == f) else {
            writeln!(o, "{}", serde_json::json!({"id": id, "unknown": f})).unwrap();
            continue;
        };
        let r = std::panic::catch_unwind(std::panic::AssertUnwindSafe(|| func(k, &reply)));
        match r {
            Ok(rec) => writeln!(
                o,
                "{}",
                serde_json::json!({"id": id, "frames": rec.frames, "out": rec.out, "low": rec.low})
            )
            .unwrap(),
            Err(_) => writeln!(o, "{}", serde_json::json!({"id": id, "panic": true})).unwrap(),
        }
    }
}
'''

CARGO_TOML = '''# GENERATED by /verif/lib/proxygen.py (C12). Do not edit.
[workspace]

[package]
name = "%(pkg)s"
version = "0.0.0"
edition = "2021"

[dependencies]
zlink = { package = "zlink-core", path = "%(repo)s/zlink-core" }
serde = { version = "1", features = ["derive"] }
serde_json = "1"
futures-util = { version = "0.3", default-features = false, features = ["std"] }

[profile.dev]
opt-level = 0
debug = false
incremental = false
'''

CARGO_CONFIG = '''[net]
offline = true
[build]
target-dir = "/verif/harness/target-corpus"
rustflags = ["--cfg", "zlink_verif"]
'''


def write_if_changed(path, content):
    if os.path.exists(path) and open(path).read() == content:
        return False
    os.makedirs(os.path.dirname(path), exist_ok=True)
    with open(path, "w") as f:
        f.write(content)
    return True


def bin_of(t, nbins):
    return t["tid"] % nbins


def render_crate(traits, outdir, nbins, repo="/repo", pkg="c12corpus", prefix="c"):
    """Write the corpus crate (only files whose content changed). Returns
    (changed, {bin name: {line number: tid}})."""
    changed = False
    changed |= write_if_changed(os.path.join(outdir, "Cargo.toml"), CARGO_TOML % {"repo": repo, "pkg": pkg})
    changed |= write_if_changed(os.path.join(outdir, ".cargo", "config.toml"), CARGO_CONFIG)
    changed |= write_if_changed(os.path.join(outdir, "src", "lib.rs"), PRELUDE)
    linemaps = {}
    bins = [[] for _ in range(nbins)]
    for t in traits:
        bins[bin_of(t, nbins)].append(t)
    bdir = os.path.join(outdir, "src", "bin")
    os.makedirs(bdir, exist_ok=True)
    want = set()
    for b, ts in enumerate(bins):
        name = "%s%d" % (prefix, b)
        want.add(name + ".rs")
        L = ["// GENERATED by /verif/lib/proxygen.py (C12). Do not edit.",
             "#![allow(dead_code, unused_imports, unused_variables, clippy::all)]",
             "use %s::*;" % pkg, ""]
        lm = {}
        for t in ts:
            src = render_trait(t)
            start = len(L) + 1
            L += src.split("\n")
            for ln in range(start, len(L) + 1):
                lm[ln] = t["tid"]
            L.append("")
        L.append("fn main() {")
        L.append("    let table: Vec<(&str, CallFn)> = vec![")
        for t in ts:
            for mi, m in enumerate(t["methods"]):
                for form in forms_of(m):
                    L.append("        (\"t%d.m%d_%s\", t%d::m%d_%s as CallFn)," % (
                        t["tid"], mi, form, t["tid"], mi, form))
        L.append("    ];")
        L.append("    serve(&table);")
        L.append("}")
        changed |= write_if_changed(os.path.join(bdir, name + ".rs"), "\n".join(L) + "\n")
        linemaps[name] = lm
    for f in os.listdir(bdir):
        if f not in want:
            os.unlink(os.path.join(bdir, f))
            changed = True
    return changed, linemaps


# ---------------------------------------------------------------------------------------------
# Coq rendering

def coq_str(s):
    b = s.encode("utf-8")
    return "[" + ";".join(str(x) for x in b) + "]%N" if b else "[]"


def coq_jval(v):
    k = v[0]
    if k == "null":
        return "JNull"
    if k == "b":
        return "(JBool %s)" % ("true" if v[1] else "false")
    if k == "n":
        return "(JNum %s)" % coq_str(v[1])
    if k == "s":
        return "(JStr %s)" % coq_str(v[1])
    if k == "arr":
        return "(JArr [%s])" % "; ".join(coq_jval(x) for x in v[1])
    if k == "obj":
        return "(JObj [%s])" % "; ".join("(%s, %s)" % (coq_str(a), coq_jval(b)) for a, b in v[1])
    if k == "none":      # a None nested inside a value serialises as null
        return "JNull"
    if k == "some":
        return coq_jval(v[1])
    raise ValueError(k)


def coq_aval(v):
    if v[0] == "none":
        return "ANone"
    if v[0] == "some":
        return "(ASome %s)" % coq_aval(v[1])
    return "(AJ %s)" % coq_jval(v)


def coq_opt_str(s):
    return "None" if s is None else "(Some %s)" % coq_str(s)


def coq_decl(m):
    ps = "; ".join("{| p_name := %s; p_rename := %s; p_shape := %s |}" % (
        coq_str(p["name"]), coq_opt_str(p["rename"]), shape_of(p["ty"])) for p in m["params"])
    return ("{| m_name := %s; m_rename := %s; m_more := %s; m_oneway := %s; m_params := [%s] |}" % (
        coq_str(m["name"]), coq_opt_str(m["rename"]), "true" if m["more"] else "false",
        "true" if m["oneway"] else "false", ps))


def parse_frame(b):
    """Captured frame bytes -> ordered value (same representation as gen_value, plus ["null"]),
    number tokens kept as text. Raises ValueError when the frame is not JSON."""
    def conv(x):
        if x is None:
            return ["null"]
        if isinstance(x, bool):
            return ["b", x]
        if isinstance(x, _Num):
            return ["n", x.tok]
        if isinstance(x, str):
            return ["s", x]
        if isinstance(x, list):
            return ["arr", [conv(y) for y in x]]
        if isinstance(x, _Obj):
            return ["obj", [[k, conv(v)] for k, v in x.pairs]]
        raise ValueError("unexpected %r" % (x,))
    v = json.loads(b.decode("utf-8"), object_pairs_hook=_Obj, parse_int=_Num, parse_float=_Num,
                   parse_constant=_Num)
    return conv(v)


class _Num:
    def __init__(self, tok):
        self.tok = tok


class _Obj:
    def __init__(self, pairs):
        self.pairs = pairs


def value_json(v):
    """Plain JSON text of a value (for human-readable replay files)."""
    k = v[0]
    if k in ("null", "none"):
        return "null"
    if k == "some":
        return value_json(v[1])
    if k == "b":
        return "true" if v[1] else "false"
    if k == "n":
        return v[1]
    if k == "s":
        return json.dumps(v[1], ensure_ascii=False)
    if k == "arr":
        return "[" + ",".join(value_json(x) for x in v[1]) + "]"
    if k == "obj":
        return "{" + ",".join(json.dumps(a, ensure_ascii=False) + ":" + value_json(b) for a, b in v[1]) + "}"
    raise ValueError(k)


def spec_text(iface, m, args):
    """Human-readable rendering of the call the declaration asks for (replay files only; the
    comparison itself is done by Coq against wire_spec)."""
    name = m["rename"] if m["rename"] is not None else pascal(m["name"])
    parts = [json.dumps("method") + ":" + json.dumps(iface + "." + name, ensure_ascii=False)]
    if m["params"]:
        ps = [json.dumps(p["rename"] if p["rename"] is not None else unraw(p["name"]), ensure_ascii=False) + ":" + value_json(a)
              for p, a in zip(m["params"], args) if a[0] != "none"]
        parts.append('"parameters":{' + ",".join(ps) + "}")
    if m["oneway"]:
        parts.append('"oneway":true')
    if m["more"]:
        parts.append('"more":true')
    return "{" + ",".join(parts) + "}"
