"""Generators and Coq renderers for the IDL family (C13, C14).

Trees are plain dicts in the harness wire format (see harness/src/bin/idl.rs) except that names
and comment texts are Python `bytes` internally; `to_wire` / `from_wire` convert to / from hex."""
import random

UP = "ABCDEFGHIJKLMNOPQRSTUVWXYZ"
LO = "abcdefghijklmnopqrstuvwxyz"
DG = "0123456789"
PRIMS = ["bool", "int", "float", "string", "object"]
KEYWORDS = ["interface", "method", "type", "error", "bool", "int", "float", "string", "object"]

# comment texts: no line feed, no leading blank (both are consumed by the comment syntax itself)
COMMENT_POOL = [
    "c", "a comment", "with: colon", "with ) paren", "with ( open", "a, b", "x: int)", "-> ()",
    "#hash", "type T (a: int)", "method M() -> ()", "interface x.y", "trailing  ", "tab\tinside",
    "unicode \u00e9\u4e2d\U0001F680", "quote \" backslash \\ slash /", "", "?[]", "[string]", "()",
    "error E ()", "a_b__c", "0", "ctl \x01\x7f", "\u00a0x", "\u00e9",
    # Unicode line ends are not line ends of the IDL (a comment ends at LF or CR only)
    "line\u2028sep", "para\u2029end\u2029", "nel\u0085x",
]


def b(s):
    return s if isinstance(s, bytes) else s.encode()


# ---------------------------------------------------------------- names (the grammar's regexes)

def field_name(rng):
    if rng.random() < 0.08:
        return b(rng.choice(KEYWORDS))
    n = rng.choice(UP + LO)
    for _ in range(rng.choice([0, 0, 1, 1, 2, 3, 5, 9])):
        if rng.random() < 0.3:
            n += "_"
        n += rng.choice(UP + LO + DG)
    return b(n)


def type_name(rng):
    n = rng.choice(UP)
    for _ in range(rng.choice([0, 1, 2, 3, 6, 10])):
        n += rng.choice(UP + LO + DG)
    return b(n)


def _segment(rng, first_alpha):
    s = rng.choice(UP + LO) if first_alpha else rng.choice(UP + LO + DG)
    for _ in range(rng.choice([0, 0, 1, 2, 4])):
        s += "-" * rng.choice([0, 0, 0, 1, 2])
        s += rng.choice(UP + LO + DG)
    return s


def interface_name(rng):
    segs = [_segment(rng, True)] + [_segment(rng, False) for _ in range(rng.choice([1, 1, 2, 3]))]
    return b(".".join(segs))


def comment_text(rng):
    return b(rng.choice(COMMENT_POOL))


# code points for comments in LAYOUT positions (skipped by `ws`, which must end a comment at LF or
# CR only): the whole General Punctuation block (all of E2 80 xx and E2 81 80..AF: Unicode blanks,
# line and paragraph separators, bidi controls, no-break spaces), NEL, NBSP, BOM, and 2-, 3-, 4-byte
# sequences that share lead or continuation bytes with them
UC_SPECIAL = sorted(set(list(range(0x2000, 0x2070)) + [
    0x80, 0x85, 0xA0, 0xA8, 0xAF, 0xB8, 0xBF, 0x7FF, 0x800, 0x1028, 0x102F, 0x1680, 0x180E, 0x1FA8, 0x20A8,
    0x2128, 0x2FA8, 0x3000, 0x3028, 0xA828, 0xE028, 0xFEFF, 0xFFFD, 0x10028, 0x1F028, 0x28028, 0x10FFFF]))
# what follows the special character inside the comment: text that would parse as IDL if the comment
# ended early
IDL_CONT = [", b: int", ") -> ()", ")", ": int", "-> (", "x", "(", "type T ()", "", ", c", ": (", ",", "\t)"]


def layout_comment_text(rng):
    if rng.random() < 0.6:
        cp = rng.choice(UC_SPECIAL)
    else:
        cp = rng.choice([rng.randrange(0x20, 0x80), rng.randrange(0x80, 0x800), rng.randrange(0x800, 0xD800),
                         rng.randrange(0xE000, 0x10000), rng.randrange(0x10000, 0x110000)])
    return rng.choice(["", "c", " next", " a: b"]) + chr(cp) + rng.choice(IDL_CONT)


def comments(rng, p):
    if rng.random() >= p:
        return []
    return [comment_text(rng) for _ in range(rng.choice([1, 1, 2, 3]))]


# ---------------------------------------------------------------- trees

def gen_type(rng, depth, opt_ok=True, inline_comments=0.0, variant_comments=0.0, empty_enum=0.0):
    """A type of nesting depth <= depth. inline_comments / variant_comments: probability of
    comments on the fields of inline structs / variants of inline enums (outside C14's
    hypotheses; 0 for trees that must round-trip)."""
    kinds = ["prim", "custom"] if depth <= 0 else \
        ["prim", "custom", "opt", "arr", "map", "struct", "enum", "arr", "map", "struct"]
    k = rng.choice(kinds)
    if k == "opt" and not opt_ok:
        k = "arr"
    kw = dict(inline_comments=inline_comments, variant_comments=variant_comments, empty_enum=empty_enum)
    if k == "prim":
        return {"t": rng.choice(PRIMS)}
    if k == "custom":
        return {"t": "custom", "n": type_name(rng)}
    if k == "opt":
        return {"t": "opt", "i": gen_type(rng, depth - 1, False, **kw)}
    if k in ("arr", "map"):
        return {"t": k, "i": gen_type(rng, depth - 1, True, **kw)}
    if k == "enum":
        n = 0 if rng.random() < empty_enum else rng.choice([1, 1, 2, 3, 4])
        return {"t": "enum", "vs": [{"name": field_name(rng), "comments": comments(rng, variant_comments)}
                                    for _ in range(n)]}
    n = rng.choice([0, 1, 1, 2, 3])
    return {"t": "struct", "fs": [{"name": field_name(rng), "ty": gen_type(rng, depth - 1, True, **kw),
                                   "comments": comments(rng, inline_comments)} for _ in range(n)]}


def gen_fields(rng, depth, pc, **kw):
    n = rng.choice([0, 1, 1, 2, 2, 3, 4])
    return [{"name": field_name(rng), "ty": gen_type(rng, rng.randrange(0, depth + 1), True, **kw),
             "comments": comments(rng, pc)} for _ in range(n)]


def gen_member(rng, depth, pc, enum_variant_comments=0.0, **kw):
    k = rng.choice(["obj", "enum", "method", "method", "error"])
    cs = comments(rng, pc)
    if k == "obj":
        return ("type", {"k": "obj", "name": type_name(rng), "fields": gen_fields(rng, depth, pc, **kw),
                         "comments": cs})
    if k == "enum":
        n = rng.choice([1, 1, 2, 3, 5])
        return ("type", {"k": "enum", "name": type_name(rng),
                         "variants": [{"name": field_name(rng), "comments": comments(rng, enum_variant_comments)}
                                      for _ in range(n)], "comments": cs})
    if k == "method":
        return ("method", {"name": type_name(rng), "inputs": gen_fields(rng, depth, pc, **kw),
                           "outputs": gen_fields(rng, depth, pc, **kw), "comments": cs})
    return ("error", {"name": type_name(rng), "fields": gen_fields(rng, depth, pc, **kw), "comments": cs})


def gen_interface(rng, max_members=6, max_depth=4, pc=0.3, **kw):
    """Returns (name, comments, members in source order)."""
    n = rng.randrange(0, max_members + 1)
    depth = rng.randrange(0, max_depth + 1)
    return {"name": interface_name(rng), "comments": comments(rng, pc),
            "members": [gen_member(rng, depth, pc, **kw) for _ in range(n)]}


def partition(src):
    """The Rust tree: one list per member kind, each in source order."""
    return {"name": src["name"], "comments": src["comments"],
            "types": [m for k, m in src["members"] if k == "type"],
            "methods": [m for k, m in src["members"] if k == "method"],
            "errors": [m for k, m in src["members"] if k == "error"]}


def display_order(tree):
    return [("type", m) for m in tree["types"]] + [("method", m) for m in tree["methods"]] + \
           [("error", m) for m in tree["errors"]]


def strip_inline_comments(t):
    """The tree a legal layout denotes: comments inside inline types are layout."""
    def ty(t):
        k = t["t"]
        if k in ("opt", "arr", "map"):
            return {"t": k, "i": ty(t["i"])}
        if k == "enum":
            return {"t": k, "vs": [{"name": v["name"], "comments": []} for v in t["vs"]]}
        if k == "struct":
            return {"t": k, "fs": [{"name": f["name"], "ty": ty(f["ty"]), "comments": []} for f in t["fs"]]}
        return dict(t)

    def fs(l):
        return [{"name": f["name"], "ty": ty(f["ty"]), "comments": f["comments"]} for f in l]
    out = {"name": t["name"], "comments": t["comments"], "types": [], "methods": [], "errors": []}
    for c in t["types"]:
        if c["k"] == "obj":
            out["types"].append({"k": "obj", "name": c["name"], "fields": fs(c["fields"]), "comments": c["comments"]})
        else:
            out["types"].append(c)
    for m in t["methods"]:
        out["methods"].append({"name": m["name"], "inputs": fs(m["inputs"]), "outputs": fs(m["outputs"]),
                               "comments": m["comments"]})
    for e in t["errors"]:
        out["errors"].append({"name": e["name"], "fields": fs(e["fields"]), "comments": e["comments"]})
    return out


# ---------------------------------------------------------------- wire format

def _map_strings(x, f):
    if isinstance(x, dict):
        return {k: (v if k in ("t", "k") and isinstance(v, str) else _map_strings(v, f)) for k, v in x.items()}
    if isinstance(x, list):
        return [_map_strings(v, f) for v in x]
    return f(x)


def to_wire(tree):
    return _map_strings(tree, lambda v: v.hex() if isinstance(v, bytes) else v)


def from_wire(tree):
    return _map_strings(tree, lambda v: bytes.fromhex(v) if isinstance(v, str) else v)


# ---------------------------------------------------------------- Coq terms

def cq_bytes(x):
    return "[" + ";".join(str(c) for c in x) + "]"


def cq_list(items):
    return "[" + ";".join(items) + "]"


def cq_comments(cs):
    return cq_list([cq_bytes(c) for c in cs])


_PRIM = {"bool": "PBool", "int": "PInt", "float": "PFloat", "string": "PString", "object": "PObject"}


def cq_variant(v):
    return "(mkVariant %s %s)" % (cq_bytes(v["name"]), cq_comments(v["comments"]))


def cq_type(t):
    k = t["t"]
    if k in _PRIM:
        return "(TPrim %s)" % _PRIM[k]
    if k == "opt":
        return "(TOpt %s)" % cq_type(t["i"])
    if k == "arr":
        return "(TArr %s)" % cq_type(t["i"])
    if k == "map":
        return "(TMap %s)" % cq_type(t["i"])
    if k == "custom":
        return "(TCustom %s)" % cq_bytes(t["n"])
    if k == "enum":
        return "(TEnum %s)" % cq_list([cq_variant(v) for v in t["vs"]])
    if k == "struct":
        return "(TStruct %s)" % cq_list([cq_field(f) for f in t["fs"]])
    raise ValueError(k)


def cq_field(f):
    return "(mkField %s %s %s)" % (cq_bytes(f["name"]), cq_type(f["ty"]), cq_comments(f["comments"]))


def cq_fields(fs):
    return cq_list([cq_field(f) for f in fs])


def cq_custom(c):
    if c["k"] == "obj":
        return "(CObject %s %s %s)" % (cq_bytes(c["name"]), cq_fields(c["fields"]), cq_comments(c["comments"]))
    return "(CEnum %s %s %s)" % (cq_bytes(c["name"]), cq_list([cq_variant(v) for v in c["variants"]]),
                                 cq_comments(c["comments"]))


def cq_method(m):
    return "(mkMethod %s %s %s %s)" % (cq_bytes(m["name"]), cq_fields(m["inputs"]), cq_fields(m["outputs"]),
                                       cq_comments(m["comments"]))


def cq_error(e):
    return "(mkError %s %s %s)" % (cq_bytes(e["name"]), cq_fields(e["fields"]), cq_comments(e["comments"]))


def cq_interface(t):
    return "(mkInterface %s %s %s %s %s)" % (
        cq_bytes(t["name"]), cq_list([cq_method(m) for m in t["methods"]]),
        cq_list([cq_custom(c) for c in t["types"]]), cq_list([cq_error(e) for e in t["errors"]]),
        cq_comments(t["comments"]))


def cq_opt_interface(t):
    return "None" if t is None else "(Some %s)" % cq_interface(t)


# ---------------------------------------------------------------- layout

class Layout:
    """Lays a source-order interface out as text: a list of pieces ("t", token) / ("g", gap).

    mode "canonical": exactly what Display writes (members must be in Display order).
    mode "legal":     random ASCII whitespace (space, tab, CR, LF) wherever the grammar has `_`,
                      comment lines (own line, ending in LF) before interface / members / direct
                      fields, parameters, variants (attached) and before the fields / variants of
                      inline types (layout only).
    mode "liberal":   additionally comment lines in any other gap (grammar-legal `_`, not demanded
                      by the property; the parser may reject)."""

    def __init__(self, rng, mode="legal", crlf=False):
        self.rng = rng
        self.mode = mode
        self.crlf = crlf
        self.out = []

    def tok(self, s, kind="t"):
        """kind: "t" keyword/punctuation, "tf" field or variant name, "tt" type name, "ti" interface name"""
        self.out.append((kind, b(s)))

    def raw_gap(self, s):
        if s:
            self.out.append(("g", b(s)))

    def _blank(self, nonempty=False):
        r = self.rng
        pool = ["", "", " ", " ", "  ", "\t", "\n", " \n  ", "\n\n", "\r\n" if self.crlf else "\n", " \t "]
        s = r.choice(pool)
        while nonempty and not s:
            s = r.choice(pool)
        return s

    def gap(self, canon="", nonempty=False, liberal_ok=True):
        """Inter-token whitespace; `canon` is what Display writes here."""
        if self.mode == "canonical":
            return self.raw_gap(canon)
        s = self._blank(nonempty)
        if self.mode == "liberal" and liberal_ok and self.rng.random() < 0.08:
            text = layout_comment_text(self.rng) if self.rng.random() < 0.5 else \
                self.rng.choice([" x", "", " a: b)", "(,"])
            s += "#" + text + "\n" + self._blank()
        self.raw_gap(s)

    def comment_lines(self, cs, indent_canon=""):
        """Attached comment lines: '#', blanks, text, LF, then blanks."""
        for c in cs:
            if self.mode == "canonical":
                self.out.append(("c", b(indent_canon) + b"# " + c + b"\n"))
            else:
                r = self.rng
                lead = r.choice(["# ", "# ", "#", "#  ", "#\t", "# \t "])
                if c[:1] in (b" ", b"\t") or c == b"":
                    lead = r.choice(["# ", "#", "#\t"])
                self.out.append(("c", b(lead) + c + (b"\r\n" if self.crlf else b"\n")))
                self.raw_gap(r.choice(["", "", " ", "\t", "\n", "  \n "]))

    drop_p = 0.15

    def dropped_comment_lines(self, p=None):
        """Comment lines inside inline types (layout only)."""
        p = self.drop_p if p is None else p
        if self.mode == "canonical" or self.rng.random() >= p:
            return
        for _ in range(self.rng.choice([1, 1, 2])):
            text = b(layout_comment_text(self.rng)) if self.rng.random() < 0.5 else comment_text(self.rng)
            self.out.append(("c", b"#" + b(self.rng.choice([" ", "", "\t"])) + text + b"\n"))
            self.raw_gap(self.rng.choice(["", " ", "\n", "\t"]))

    # -- types
    def type(self, t):
        k = t["t"]
        if k in PRIMS:
            self.tok(k)
        elif k == "custom":
            self.tok(t["n"], "tt")
        elif k == "opt":
            self.tok("?")
            self.type(t["i"])
        elif k == "arr":
            self.tok("[]")
            self.type(t["i"])
        elif k == "map":
            self.tok("[string]")
            self.type(t["i"])
        elif k == "enum":
            self.inline_enum(t["vs"])
        elif k == "struct":
            self.tok("(")
            self.gap("")
            for j, f in enumerate(t["fs"]):
                if j:
                    self.gap("")
                    self.tok(",")
                    self.gap(" ")
                if self.mode == "canonical":
                    self.comment_lines(f["comments"])
                else:
                    self.dropped_comment_lines()
                self.tok(f["name"], "tf")
                self.gap("")
                self.tok(":")
                self.gap(" ")
                self.type(f["ty"])
            self.gap("")
            self.tok(")")
        else:
            raise ValueError(k)

    def inline_enum(self, vs, custom=False):
        multi = self.mode == "canonical" and any(v["comments"] for v in vs)
        self.tok("(")
        if multi:      # custom_enum.rs:70-82 / type/mod.rs:104-116: one variant per line, no commas
            self.raw_gap("\n")
            for v in vs:
                self.comment_lines(v["comments"], "\t")
                self.raw_gap("\t")
                self.tok(v["name"], "tf")
                self.raw_gap("\n")
            self.tok(")")
            return
        self.gap("")
        for j, v in enumerate(vs):
            if j:
                self.gap("")
                self.tok(",")
                self.gap(" ")
            if custom:
                self.comment_lines(v["comments"])
            elif self.mode != "canonical":
                self.dropped_comment_lines()
            self.tok(v["name"], "tf")
        self.gap("")
        self.tok(")")

    # -- direct field lists of members: blanks only around the entries (whitespace_only)
    def fields(self, fs):
        self.tok("(")
        self.gap("", liberal_ok=False)
        for j, f in enumerate(fs):
            if j:
                self.gap("", liberal_ok=False)
                self.tok(",")
                self.gap(" ", liberal_ok=False)
            self.comment_lines(f["comments"])
            self.tok(f["name"], "tf")
            self.gap("")
            self.tok(":")
            self.gap(" ")
            self.type(f["ty"])
        self.gap("", liberal_ok=False)
        self.tok(")")

    def member(self, kind, m):
        self.comment_lines(m["comments"])
        if kind == "type":
            self.tok("type")
            self.gap(" ", nonempty=True, liberal_ok=False)
            self.tok(m["name"], "tt")
            self.gap(" ")
            if m["k"] == "obj":
                self.fields(m["fields"])
            else:
                self.inline_enum(m["variants"], custom=True)
        elif kind == "method":
            self.tok("method")
            self.gap(" ", nonempty=True, liberal_ok=False)
            self.tok(m["name"], "tt")
            self.gap("")
            self.fields(m["inputs"])
            self.gap(" ")
            self.tok("->")
            self.gap(" ")
            self.fields(m["outputs"])
        else:
            self.tok("error")
            self.gap(" ", nonempty=True, liberal_ok=False)
            self.tok(m["name"], "tt")
            self.gap(" ")
            self.fields(m["fields"])

    def interface(self, src):
        if self.mode != "canonical":
            self.raw_gap(self.rng.choice(["", "", "\n", " ", "\n\n  "]))
        self.comment_lines(src["comments"])
        self.tok("interface")
        self.gap(" ", nonempty=True, liberal_ok=False)
        self.tok(src["name"], "ti")
        for kind, m in src["members"]:
            if self.mode == "canonical":
                self.raw_gap("\n\n")
            else:
                self.raw_gap(self.rng.choice(["\n", "\n\n", "\n  ", " \n", "\r\n" if self.crlf else "\n", "\t\n"]))
            self.member(kind, m)
        if self.mode == "liberal" and self.rng.random() < 0.3:
            # comment lines after the last member (skipped by the final `ws`)
            self.raw_gap("\n#" + layout_comment_text(self.rng) + self.rng.choice(["\n", "", "\n# more\n"]))
        if self.mode != "canonical":
            self.raw_gap(self.rng.choice(["", "", "\n", "  ", "\n\n"]))
        return self.out


def text_of(pieces):
    return b"".join(p for _, p in pieces)


def canonical_text(tree):
    """What Display writes for the (partitioned) tree."""
    src = {"name": tree["name"], "comments": tree["comments"], "members": display_order(tree)}
    return text_of(Layout(random.Random(0), "canonical").interface(src))


# ---------------------------------------------------------------- mutations

ILLEGAL = list("!@$%^&*{}<>=;|~`'\"/\\+") + ["_", ".", "-", "0", "9", ":", ",", "(", ")", "?", "[", "]", "#"]
NONASCII = ["\u00e9", "\u00a0", "\u2028", "\u2003", "\u3000", "\U0001F680", "\u0085", "\u200b", "\ufeff", "\x0b", "\x0c", "\x00", "\x1f", "\x7f"]


def mutate(rng, pieces):
    """One mutation of a laid-out text; returns (kind, bytes)."""
    toks = [j for j, (k, _) in enumerate(pieces) if k.startswith("t")]
    kind = rng.choice(["del_tok", "dup_tok", "swap_tok", "del_gap", "illegal", "nonascii", "case", "kw_glue",
                       "del_tok", "swap_tok", "illegal"])
    ps = list(pieces)
    if kind == "del_tok" and toks:
        del ps[rng.choice(toks)]
    elif kind == "dup_tok" and toks:
        j = rng.choice(toks)
        ps.insert(j, ps[j])
    elif kind == "swap_tok" and len(toks) >= 2:
        i = rng.randrange(len(toks) - 1)
        a, c = toks[i], toks[i + 1] if rng.random() < 0.7 else rng.choice(toks)
        ps[a], ps[c] = ps[c], ps[a]
    elif kind == "del_gap":
        gaps = [j for j, (k, _) in enumerate(ps) if k == "g"]
        if gaps:
            del ps[rng.choice(gaps)]
    elif kind == "case" and toks:
        j = rng.choice(toks)
        ps[j] = (ps[j][0], ps[j][1].swapcase())
    elif kind == "kw_glue":
        # drop the gap after a keyword / before a name
        for j in range(len(ps) - 1):
            if ps[j][1] in (b"method", b"type", b"error", b"interface") and ps[j + 1][0] == "g" and rng.random() < 0.5:
                del ps[j + 1]
                break
    text = text_of(ps)
    if kind in ("illegal", "nonascii") or text == text_of(pieces):
        s = text.decode("utf-8", "replace")
        pos = rng.randrange(len(s) + 1)
        ch = rng.choice(NONASCII if kind == "nonascii" else ILLEGAL)
        if rng.random() < 0.5 or not s:
            s = s[:pos] + ch + s[pos:]
        else:
            pos = min(pos, len(s) - 1)
            s = s[:pos] + ch + s[pos + 1:]
        text = s.encode()
    return kind, text


def truncations(text):
    """Every proper prefix that is valid UTF-8."""
    out = []
    for k in range(len(text)):
        p = text[:k]
        try:
            p.decode()
        except UnicodeDecodeError:
            continue
        out.append(p)
    return out


SOUP = ["interface", "method", "type", "error", "bool", "int", "float", "string", "object", "(", ")", ",",
        ":", "->", "?", "[]", "[string]", "#", " ", "\n", "\t", "\r", "a", "B", "a.b", "org.example", "x_y",
        "-", ".", "_", "0", "\u00e9", "\u00a0", "\x0c", "\x00", "()", "(a)", "(a: int)", "T", "\r\n", "# c\n"]


def soup(rng):
    n = rng.choice([0, 1, 2, 3, 5, 8, 13, 21, 34])
    if rng.random() < 0.5:
        s = "interface a.b" + rng.choice([" ", "\n", ""])
    else:
        s = ""
    for _ in range(n):
        s += rng.choice(SOUP) if rng.random() < 0.85 else chr(rng.choice([rng.randrange(0, 128), rng.randrange(128, 0x800), rng.randrange(0x800, 0xd800), rng.randrange(0x10000, 0x10ffff)]))
    return s.encode()


# ---------------------------------------------------------------- C14: trees for the constructors

# comment texts outside the round-trip hypotheses (line breaks, leading blanks)
BAD_COMMENTS = ["two\nlines", " leading blank", "\tleading tab", "cr\rinside", "ends with cr\r", "\n"]
BAD_NAMES = ["", "a b", "1x", "_a", "a_", "a__b", "x-y", "bool int", "é", "a.b", "A:", "a)", "(", "a,b", "#a", "a\n"]


def gen_build_tree(rng, mode):
    """mode "wf": inside C14's hypotheses (legal names, well-formed comments, comments at
    interface / member / field / parameter / variant level, no comments inside inline types);
    "wf_nocommentedenum": additionally outside the known class (no commented variants in enums with
    two or more variants); "wild": anything the constructors accept."""
    if mode == "wild":
        src = gen_interface(rng, max_members=4, max_depth=3, pc=0.4, enum_variant_comments=0.4,
                            inline_comments=0.3, variant_comments=0.3, empty_enum=0.2)
        tree = partition(src)

        def spoil(x):
            if isinstance(x, dict):
                for k, v in list(x.items()):
                    if k in ("name", "n") and rng.random() < 0.08:
                        x[k] = b(rng.choice(BAD_NAMES))
                    elif k == "comments" and rng.random() < 0.1:
                        x[k] = list(v) + [b(rng.choice(BAD_COMMENTS))]
                    elif k == "i" and x.get("t") == "opt" and rng.random() < 0.2:
                        x[k] = {"t": "opt", "i": v}
                        spoil(v)
                    else:
                        spoil(v)
            elif isinstance(x, list):
                for v in x:
                    spoil(v)
        spoil(tree)
        if rng.random() < 0.1:
            tree["types"].append({"k": "enum", "name": type_name(rng), "variants": [], "comments": []})
        return tree
    evc = 0.0 if mode == "wf_nocommentedenum" else 0.5
    src = gen_interface(rng, max_members=6, max_depth=4, pc=rng.choice([0, 0.3, 0.7]),
                        enum_variant_comments=evc)
    tree = partition(src)
    if mode == "wf_nocommentedenum" and rng.random() < 0.3:
        # a single commented variant is fine
        tree["types"].append({"k": "enum", "name": type_name(rng),
                              "variants": [{"name": field_name(rng), "comments": comments(rng, 1.0)}],
                              "comments": comments(rng, 0.3)})
    return tree


def near_miss_names(rng, pieces, per_text=6):
    """Texts in which one name is replaced by a near miss of its character class (leading or
    trailing or doubled underscore, leading digit, dash, dot, wrong case, non-ASCII letter)."""
    out = []
    names = [j for j, (k, _) in enumerate(pieces) if k in ("tf", "tt", "ti")]
    rng.shuffle(names)
    for j in names[:per_text]:
        k, n = pieces[j]
        s = n.decode()
        if k == "tf":
            vs = ["_" + s, s + "_", s[:1] + "__" + s[1:], "9" + s, s + "-x", s + ".x", "\u00e9" + s, s + "_9", s[:1] + "_" + s[1:]]
        elif k == "tt":
            vs = [s[:1].lower() + s[1:], "_" + s, s + "_x", "9" + s, s + "-", s + ".", s + "\u00e9"]
        else:
            first = s.split(".")[0]
            vs = [s + ".", s + "-", "." + s, s.replace(".", "..", 1), s + "._x", "-" + s, first, "9" + s, s + ".-a",
                  s.replace(".", "-.", 1), s + "_"]
        v = rng.choice(vs)
        ps = list(pieces)
        ps[j] = (k, v.encode())
        out.append((k, text_of(ps)))
    return out


def one_fault_tree(rng):
    """A tree inside C14's hypotheses except for exactly one fault (for model correspondence at the
    border of the hypotheses): `??`, a comment inside an inline type, an empty enum, a name or a
    comment text outside its class."""
    for _ in range(50):
        tree = gen_build_tree(rng, "wf_nocommentedenum")
        sites = []

        def walk(x):
            if isinstance(x, dict):
                if x.get("t") == "opt":
                    sites.append(lambda x=x: x.__setitem__("i", {"t": "opt", "i": x["i"]}))
                if x.get("t") == "struct" and x["fs"]:
                    sites.append(lambda x=x: rng.choice(x["fs"])["comments"].append(comment_text(rng)))
                if x.get("t") == "enum":
                    sites.append(lambda x=x: rng.choice(x["vs"])["comments"].append(comment_text(rng)))
                    sites.append(lambda x=x: x.__setitem__("vs", []))
                if x.get("k") == "enum":
                    sites.append(lambda x=x: x.__setitem__("variants", []))
                for k in ("name", "n"):
                    if k in x:
                        sites.append(lambda x=x, k=k: x.__setitem__(k, b(rng.choice(BAD_NAMES))))
                if "comments" in x:
                    sites.append(lambda x=x: x["comments"].append(b(rng.choice(BAD_COMMENTS))))
                for v in x.values():
                    walk(v)
            elif isinstance(x, list):
                for v in x:
                    walk(v)
        walk(tree)
        if sites:
            rng.choice(sites)()
            return tree
    return tree


def derive_shaped(rng, tree):
    """Comments as the derive macros make them from doc comments: `/// text` gives " text" (a
    leading blank), a blank `///` line gives "". Applied to an otherwise well-formed tree."""
    def walk(x):
        if isinstance(x, dict):
            for k, v in list(x.items()):
                if k == "comments":
                    out = []
                    for c in v:
                        r = rng.random()
                        if r < 0.6:
                            out.append(b" " + c)
                        elif r < 0.7:
                            out.append(rng.choice([b"  ", b"\t", b" \t "]) + c)
                        else:
                            out.append(c)
                        if rng.random() < 0.15:
                            out.append(rng.choice([b"", b" ", b"   "]))
                    x[k] = out
                elif k not in ("vs", "fs", "ty", "i"):      # not inside inline types
                    walk(v)
                elif k == "ty":
                    pass
        elif isinstance(x, list):
            for v in x:
                walk(v)
    walk(tree)
    return tree


# ---------------------------------------------------------------- grammar-aware near misses

# bodies of a parenthesised list, `T` = a typed entry, `B` = a bare name; written with the
# separators spelled out so that every almost-legal shape is enumerated, not hoped for
LIST_SHAPES = [
    "", "T", "B", "T,T", "B,B", "T,T,T", "B,B,B",
    ",", ",,", "T,", "B,", "T,T,", "B,B,", ",T", ",B", "T,,T", "B,,B", "T,,", ",T,", "T T", "B B", "T B", "B T",
    "B,T", "T,B", "B,B,T", "B,T,T", "T,T,B", "T,B,B", "B,T,B", "T,B,T", "B,T,B,T",
    "N:", "N: ", "N:,T", "T,N:", ":Y", "Y", "T,Y", "N Y", "N::Y", "N:Y:Y", "N:Y Y", "T;T", "T.T",
]
TYPES_NEAR = [
    "int", "T", "?int", "[]int", "[string]int", "?[]?T", "[]?[]T", "?[string]?int", "??T", "?[]??T", "[string",
    "[string]", "[ string]int", "[string ]int", "[]", "?", "[]]int", "[int]int", "[string]]int", "?[]", "[string]?",
    "? int", "[] int", "[string] int", "[][]", "[[]]int", "()", "( )", "(a)", "(a,)", "(a: int,)", "(,)", "?()", "[]()",
    "?(a, b)", "(a: (b: (c: int)))", "(a: (b, c), d: ?[](e: int))", "(a: int, b)", "(a, b: int)", "((a))", "(a: )",
    "string?", "int[]", "bool int", "Int", "object", "float", "STRING", "T?", "?T?",
]


def _list_body(shape, gap, names):
    out = ""
    it = iter(names)
    for ch in shape:
        if ch == "T":
            out += next(it) + ":" + gap + "int"
        elif ch == "B":
            out += next(it)
        elif ch == "N":
            out += next(it)
        elif ch == "Y":
            out += "int"
        elif ch == ",":
            out += "," + gap
        else:
            out += ch
    return out


def near_miss_lists():
    """Every list kind x every almost-legal list shape x two gap styles (deterministic)."""
    names = ["a", "b", "c", "d", "e", "f"]
    out = []
    for shape in LIST_SHAPES:
        for gap in ("", " "):
            body = _list_body(shape, gap, names)
            for inner in (body, gap + body + gap if gap else None):
                if inner is None:
                    continue
                lst = "(" + inner + ")"
                out.append(("method_in", "interface a.b\nmethod M%s -> ()" % lst))
                out.append(("method_out", "interface a.b\nmethod M() -> %s" % lst))
                out.append(("error", "interface a.b\nerror E %s" % lst))
                out.append(("type", "interface a.b\ntype T %s" % lst))
                out.append(("inline", "interface a.b\nmethod M(x: %s) -> ()" % lst))
                out.append(("inline_nested", "interface a.b\ntype T (p: ?[]%s, q: int)" % lst))
    for t in TYPES_NEAR:
        out.append(("type_shape", "interface a.b\nmethod M(x: %s) -> ()" % t))
        out.append(("type_shape", "interface a.b\ntype T (x: %s, y: %s)" % (t, t)))
        out.append(("type_shape", "interface a.b\nerror E (x: %s)" % t))
    for arrow in ["->", "", "-> ->", "- >", "-->", "->>", "=>", "-", ">", "-> ()  ->"]:
        out.append(("arrow", "interface a.b\nmethod M() %s ()" % arrow))
        out.append(("arrow", "interface a.b\nmethod M(a: int)%s(b: int)" % arrow))
    for tail in ["method M()", "method M() ->", "method M", "method M ->()", "method () -> ()", "method M() -> () ()",
                 "method M()() -> ()", "method M( ) -> ( )", "method M ( )->( )", "type T", "type T( )", "type (a: int)",
                 "type T (a: int) (b: int)", "error E", "error E()", "error E ( )", "error (a: int)", "error E -> ()",
                 "type T (a: int) -> ()", "method M() -> () -> ()", "interface c.d", "type T () type U ()"]:
        out.append(("member_shape", "interface a.b\n" + tail))
    for kw in KEYWORDS + ["Type", "Method", "Interface"]:
        out.append(("kw_name", "interface a.b\ntype T (%s: int)" % kw))
        out.append(("kw_name", "interface a.b\ntype T (%s, x)" % kw))
        out.append(("kw_name", "interface a.b\nmethod M(%s: %s) -> ()" % (kw, kw)))
        out.append(("kw_name", "interface a.b\ntype %s (a: int)" % kw))
        out.append(("kw_name", "interface a.b\nmethod %s() -> ()" % kw))
        out.append(("kw_name", "interface a.b\nerror %s ()" % kw))
        out.append(("kw_name", "interface %s.%s\n" % (kw, kw)))
    return [(k, t.encode()) for k, t in out]


def uc_comment_cases():
    """Every special code point inside a comment in every LAYOUT position (inside an inline struct
    and an inline enum, around ':' and '->', between a member's name and '(', after the last
    member), followed by text that would parse as IDL if the comment ended at that character
    (deterministic)."""
    out = []
    for cp in UC_SPECIAL:
        ch = chr(cp)
        out.append(("inline_struct", "interface a.b\nmethod M() -> (r: (a: int # next%s, b: int\n))" % ch))
        out.append(("inline_enum", "interface a.b\ntype T (x: (a # c%s, b\n, c))" % ch))
        out.append(("colon", "interface a.b\nmethod M(a # c%s: int) -> (\n : int) -> ()" % ch))
        out.append(("arrow", "interface a.b\nmethod M() # c%s -> (x: int)\n -> ()" % ch))
        out.append(("name_paren", "interface a.b\nerror E # c%s(x: int)\n ()" % ch))
        out.append(("trailing", "interface a.b\nerror E ()\n# trailing%s garbage" % ch))
        out.append(("trailing2", "interface a.b\nerror E ()\n# trailing%s\nerror F ()" % ch))
    return [(k, t.encode()) for k, t in out]


# ---------------------------------------------------------------- large inputs, by recipe

import json as _json
import zlib as _zlib


def canon_json(tree_wire):
    return _json.dumps(tree_wire, sort_keys=True, separators=(",", ":"))


def _hx(s):
    return b(s).hex()


def _canon_field(name, ty_json, comments=()):
    return '{"comments":[%s],"name":"%s","ty":%s}' % (",".join('"%s"' % _hx(c) for c in comments), _hx(name), ty_json)


_INT = '{"t":"int"}'


def _canon_iface(types=(), methods=(), errors=(), comments=()):
    return '{"comments":[%s],"errors":[%s],"methods":[%s],"name":"%s","types":[%s]}' % (
        ",".join('"%s"' % _hx(c) for c in comments), ",".join(errors), ",".join(methods), _hx("a.b"), ",".join(types))


def _canon_method(name, ins=(), outs=(), comments=()):
    return '{"comments":[%s],"inputs":[%s],"name":"%s","outputs":[%s]}' % (
        ",".join('"%s"' % _hx(c) for c in comments), ",".join(ins), _hx(name), ",".join(outs))


def _canon_error(name, fields=(), comments=()):
    return '{"comments":[%s],"fields":[%s],"name":"%s"}' % (
        ",".join('"%s"' % _hx(c) for c in comments), ",".join(fields), _hx(name))


def _canon_obj(name, fields=(), comments=()):
    return '{"comments":[%s],"fields":[%s],"k":"obj","name":"%s"}' % (
        ",".join('"%s"' % _hx(c) for c in comments), ",".join(fields), _hx(name))


def _canon_variant(name, comments=()):
    return '{"comments":[%s],"name":"%s"}' % (",".join('"%s"' % _hx(c) for c in comments), _hx(name))


def _canon_enum(name, variants=(), comments=()):
    return '{"comments":[%s],"k":"enum","name":"%s","variants":[%s]}' % (
        ",".join('"%s"' % _hx(c) for c in comments), _hx(name), ",".join(variants))


RUN_POSITIONS = ["after_last", "inline_struct", "inline_enum", "name_colon", "arrow_before", "arrow_after",
                 "name_paren", "type_name_paren", "after_comma_inline", "attached_interface", "attached_member",
                 "attached_param", "attached_field", "attached_variant", "between_members", "before_rparen_inline"]
ENTRY_KINDS = ["type_obj", "type_enum", "method_in", "method_out", "error", "inline_struct", "inline_enum"]
DEEP_PREFIXES = ["[]", "[string]", "?[]", "(a: "]


def expand_recipe(rc):
    """recipe -> (text bytes, expected class, expected canonical tree JSON or None). The expected
    outcome is known by construction: this is the specification-level evaluation of the large
    inputs (the Coq model is not run on them)."""
    k = rc["kind"]
    if k == "run":
        n, what, pos = rc["n"], rc["what"], rc["pos"]
        unit = {"comment": "# c\n", "blank": "\n", "mixed": "# c\n\n \t", "cr_comment": "# c\r\n"}[what]
        run = unit * n
        att = ["c"] * n if what != "blank" else []
        parts = {p: "" for p in RUN_POSITIONS}
        parts[pos] = run
        P = parts
        text = (P["attached_interface"] + "interface a.b\n" + P["attached_member"] + "method M" + P["name_paren"]
                + "(" + P["attached_param"] + "a" + P["name_colon"] + ": int) " + P["arrow_before"] + "->"
                + P["arrow_after"] + " (r: (" + P["inline_struct"] + "p: int," + P["after_comma_inline"]
                + " q: int" + P["before_rparen_inline"] + "))\n" + P["between_members"]
                + "type E (" + P["attached_variant"] + "one, two)\n"
                + "type T" + P["type_name_paren"] + " (" + P["attached_field"] + "f: (" + P["inline_enum"] + "x, y))\n"
                + P["after_last"])
        a = lambda p: att if pos == p else []
        exp = _canon_iface(
            types=[_canon_enum("E", [_canon_variant("one", a("attached_variant")), _canon_variant("two")],
                               a("between_members")),
                   _canon_obj("T", [_canon_field("f", '{"t":"enum","vs":[%s,%s]}' % (_canon_variant("x"), _canon_variant("y")),
                                                 a("attached_field"))])],
            methods=[_canon_method("M", [_canon_field("a", _INT, a("attached_param"))],
                                   [_canon_field("r", '{"fs":[%s,%s],"t":"struct"}' % (
                                       _canon_field("p", _INT), _canon_field("q", _INT)))],
                                   a("attached_member"))],
            comments=a("attached_interface"))
        return text.encode(), "ok", exp
    if k == "entries":
        n, lk = rc["n"], rc["list"]
        bare = lk in ("type_enum", "inline_enum")
        names = ["f%d" % i for i in range(n)]
        body = ", ".join(names) if bare else ", ".join("%s: int" % x for x in names)
        if rc.get("mixed"):        # a bare name after n typed entries (or a typed one after n bare): illegal
            body += ", zz" if not bare else ", zz: int"
        fields = [_canon_field(x, _INT) for x in names]
        variants = [_canon_variant(x) for x in names]
        if lk == "type_obj":
            text, exp = "type T (%s)" % body, _canon_iface(types=[_canon_obj("T", fields)])
        elif lk == "type_enum":
            text, exp = "type T (%s)" % body, _canon_iface(types=[_canon_enum("T", variants)])
        elif lk == "method_in":
            text, exp = "method M(%s) -> ()" % body, _canon_iface(methods=[_canon_method("M", fields)])
        elif lk == "method_out":
            text, exp = "method M() -> (%s)" % body, _canon_iface(methods=[_canon_method("M", [], fields)])
        elif lk == "error":
            text, exp = "error E (%s)" % body, _canon_iface(errors=[_canon_error("E", fields)])
        elif lk == "inline_struct":
            text = "error E (x: (%s))" % body
            exp = _canon_iface(errors=[_canon_error("E", [_canon_field("x", '{"fs":[%s],"t":"struct"}' % ",".join(fields))])])
        else:
            text = "error E (x: (%s))" % body
            exp = _canon_iface(errors=[_canon_error("E", [_canon_field("x", '{"t":"enum","vs":[%s]}' % ",".join(variants))])])
        if rc.get("mixed"):
            return ("interface a.b\n" + text).encode(), "err", None
        return ("interface a.b\n" + text).encode(), "ok", exp
    if k == "members":
        n = rc["n"]
        lines, ts, ms, es = [], [], [], []
        for i in range(n):
            if i % 3 == 0:
                lines.append("type T%d (a: int)" % i)
                ts.append(_canon_obj("T%d" % i, [_canon_field("a", _INT)]))
            elif i % 3 == 1:
                lines.append("method M%d() -> ()" % i)
                ms.append(_canon_method("M%d" % i))
            else:
                lines.append("error E%d ()" % i)
                es.append(_canon_error("E%d" % i))
        return ("interface a.b\n" + "\n".join(lines) + "\n").encode(), "ok", _canon_iface(ts, ms, es)
    if k == "deep":
        d, pre = rc["depth"], rc["prefix"]
        if pre == "(a: ":
            text = "(a: " * d + "int" + ")" * d
            ty = '{"fs":[{"comments":[],"name":"%s","ty":' % _hx("a") * d + _INT + '}],"t":"struct"}' * d
        elif pre == "?[]":
            text = "?[]" * d + "int"
            ty = '{"i":{"i":' * d + _INT + ',"t":"arr"},"t":"opt"}' * d
        else:
            text = pre * d + "int"
            ty = '{"i":' * d + _INT + ',"t":"%s"}' % ("arr" if pre == "[]" else "map") * d
        return ("interface a.b\nmethod M(x: %s) -> ()" % text).encode(), "ok", \
            _canon_iface(methods=[_canon_method("M", [_canon_field("x", ty)])])
    raise ValueError(k)


def expected_summary(exp):
    return None if exp is None else {"tree_crc": _zlib.crc32(exp.encode()) & 0xFFFFFFFF, "tree_len": len(exp)}


def big_recipes(quick=True):
    """Long and deep instances of every repeated or recursive production."""
    out = []
    n_run = 50000
    for pos in RUN_POSITIONS:
        for what in ("comment", "blank"):
            out.append({"kind": "run", "pos": pos, "what": what, "n": n_run})
    for pos in ("after_last", "inline_struct", "attached_member", "attached_field"):
        out.append({"kind": "run", "pos": pos, "what": "mixed", "n": n_run // 2})
        out.append({"kind": "run", "pos": pos, "what": "cr_comment", "n": n_run // 2})
    for lk in ENTRY_KINDS:
        if quick:
            ns = (65535, 65536, 65537) if lk in ("type_obj", "type_enum") else (65536,)
        else:
            ns = (5000, 65535, 65536, 65537, 131072)
        if lk not in ("type_obj", "type_enum"):
            ns = (511, 512, 513) + ns        # the Coq model evaluates these sizes for the two `type` forms
        for n in ns:
            out.append({"kind": "entries", "list": lk, "n": n})
    for lk in ("type_obj", "type_enum"):
        for n in (256, 512, 65536):
            out.append({"kind": "entries", "list": lk, "n": n, "mixed": True})
    out.append({"kind": "members", "n": 100000 if quick else 300000})
    for pre in DEEP_PREFIXES:
        for d in (500, 2000):
            out.append({"kind": "deep", "prefix": pre, "depth": d})
    return out


def describe_recipe(rc):
    k = rc["kind"]
    if k == "run":
        return "%d %s lines in position %s" % (rc["n"], rc["what"], rc["pos"])
    if k == "entries":
        return "a %s list with %d entries%s" % (rc["list"], rc["n"], " followed by one entry of the other kind" if rc.get("mixed") else "")
    if k == "members":
        return "%d members" % rc["n"]
    return "a type nested %d deep with prefix %r" % (rc["depth"], rc["prefix"])
