"""Common machinery for the zlink verification checks.

A check (checks/cXX.py) does, on every run:
  1. translate: regenerate coq/gen/*.v from /repo's working tree (where the property has data);
  2. prove: rebuild the Coq development for the property (full .vo build) and re-check the pinned
     theorem file, auditing assumptions;
  3. correspond: build the Rust harness against /repo's working tree (cfg zlink_verif), run the
     implementation on generated cases, evaluate model and spec on the same cases inside Coq
     (vm_compute) and compare;
  4. report: known findings, violations with replay files, evidence JSON.
"""
import hashlib
import json
import os
import random
import re
import signal
import subprocess
import sys
import time
from concurrent.futures import ThreadPoolExecutor

VERIF = os.path.dirname(os.path.dirname(os.path.abspath(__file__)))
REPO = os.environ.get("ZV_REPO", "/repo")
COQ = os.path.join(VERIF, "coq")
WORK = os.path.join(VERIF, "work")
HARNESS = os.path.join(VERIF, "harness")
# evidence of runs against another checkout (ZV_REPO) never overwrites the evidence of /repo
EVID = os.path.join(VERIF, "evidence") if (os.path.realpath(REPO) == "/repo" and not os.environ.get("ZV_EVID_ALT")) \
    else os.path.join(WORK, "evidence-alt")
REPLAY = os.path.join(EVID, "replay")

FORBIDDEN = re.compile(
    r"\b(Admitted|admit|Axiom|Axioms|Parameter|Parameters|Conjecture|Conjectures|Abort)\b|"
    r"Unset\s+Guard|bypass_check|type-in-type|impredicative-set|Admit\s+Obligations|"
    r"Unset\s+Universe\s+Checking|Unset\s+Positivity")

TRUSTED_BASE = [
    "Coq 8.16.1 kernel (coqc, full .vo build; vm_compute used for finite sweeps, witness lemmas "
    "and for evaluating the model on the correspondence cases; native_compute not used)",
    "axioms: none (Print Assumptions under every pinned theorem must say 'Closed under the global "
    "context'; anything else fails the audit)",
    "no extraction: the model is evaluated inside Coq, so no Extract directives are trusted",
    "translators under /verif/translate (regex-level readers of specific Rust items)",
    "Python case generators and the comparison logic in /verif/checks and /verif/lib",
    "the Rust harness /verif/harness (scripted sockets, poll-by-poll executor) and rustc/cargo",
    "third-party crates the implementation calls (serde, serde_json, itoa, ryu, winnow, heck, "
    "tokio, async-broadcast): modelled where a property depends on them, tied by correspondence only",
]


def harness_root():
    """The harness package to build. With ZV_REPO pointing at another checkout of zlink (used to try
    the checks on a scratch worktree without touching /repo) a copy of the harness with its path
    dependencies redirected is kept under work/."""
    if os.path.realpath(REPO) == "/repo":
        return HARNESS
    tag = hashlib.sha1(os.path.realpath(REPO).encode()).hexdigest()[:10]
    d = os.path.join(WORK, "harness-" + tag)
    os.makedirs(os.path.join(d, ".cargo"), exist_ok=True)
    subprocess.run(["rsync", "-a", "--delete", os.path.join(HARNESS, "src") + "/", os.path.join(d, "src") + "/"], check=True)
    toml = open(os.path.join(HARNESS, "Cargo.toml")).read().replace('"/repo/', '"%s/' % os.path.realpath(REPO))
    if not os.path.exists(os.path.join(d, "Cargo.toml")) or open(os.path.join(d, "Cargo.toml")).read() != toml:
        open(os.path.join(d, "Cargo.toml"), "w").write(toml)
    cfg = open(os.path.join(HARNESS, ".cargo", "config.toml")).read().replace("/verif/harness/target", os.path.join(d, "target"))
    open(os.path.join(d, ".cargo", "config.toml"), "w").write(cfg)
    if not os.path.exists(os.path.join(d, "Cargo.lock")):
        subprocess.run(["cp", os.path.join(HARNESS, "Cargo.lock"), os.path.join(d, "Cargo.lock")], check=True)
    return d


def sh(cmd, timeout=600, cwd=None, env=None, input=None):
    e = dict(os.environ)
    e.setdefault("CARGO_NET_OFFLINE", "true")
    if env:
        e.update(env)
    # own process group, so that a time-out kills the whole tree (a shell's children included)
    p = subprocess.Popen(cmd, shell=isinstance(cmd, str), cwd=cwd, env=e,
                         stdin=subprocess.PIPE if input is not None else None,
                         stdout=subprocess.PIPE, stderr=subprocess.STDOUT,
                         text=True, errors="replace", start_new_session=True)
    try:
        out, _ = p.communicate(input=input, timeout=timeout)
        return p.returncode, out
    except subprocess.TimeoutExpired:
        try:
            os.killpg(p.pid, signal.SIGKILL)
        except OSError:
            pass
        try:
            out, _ = p.communicate(timeout=30)
        except Exception:
            out = ""
        return 124, (out or "") + "\n[timeout after %ss]" % timeout


class Check:
    def __init__(self, pid, argv=None):
        argv = sys.argv[1:] if argv is None else argv
        self.pid = pid
        self.tier = "quick"
        self.replay = None
        args = list(argv)
        while args:
            a = args.pop(0)
            if a in ("quick", "thorough"):
                self.tier = a
            elif a == "--replay":
                self.replay = args.pop(0)
        self.tier = os.environ.get("VERIF_TIER", self.tier)
        if self.tier not in ("quick", "thorough"):
            self.tier = "quick"
        try:
            self.seed = int(os.environ.get("VERIF_SEED", "1"))
        except ValueError:
            self.seed = 1
        self.rng = random.Random(self.seed * 1000003 + int(pid[1:]))
        self.t0 = time.time()
        self.violations = []       # dicts: {what, replay, no_input:bool}
        self.known_hits = []       # (finding, what)
        self.obligations = 0
        self.discharged = 0
        self.theorems = []
        self.assumption_reports = []
        self.cov = {}
        self.samples = []
        self.assumptions = []
        self.checker_cmds = []
        self.notes = []
        # scratch of this run only (two runs of the same check may overlap, e.g. one against /repo
        # and one against another checkout); removed by finish() unless something was reported
        self.workdir = os.path.join(WORK, pid, "run-%d" % os.getpid())
        os.makedirs(self.workdir, exist_ok=True)
        # stable per-property directory for things worth keeping between runs (generated corpus
        # crates whose build is cached)
        self.cachedir = os.path.join(WORK, pid)
        os.makedirs(REPLAY, exist_ok=True)
        self.findings = load_findings()

    # ---------------------------------------------------------------- Coq
    def coq_build(self, targets, timeout=1500):
        """Full .vo build of the given targets (relative to coq/), regenerating _CoqProject."""
        rc, out = sh([os.path.join(VERIF, "bin", "mkcoq")], timeout=120)
        if rc != 0:
            return False, out
        tg = " ".join(t if t.endswith(".vo") else t + "o" for t in targets)
        cmd = "flock %s/.build.lock make -j16 %s" % (COQ, tg)
        self.checker_cmds.append("cd coq && make " + tg)
        rc, out = sh(cmd, timeout=timeout, cwd=COQ)
        return rc == 0, out

    def coq_audit(self, files):
        """Grep the given Coq source files (and everything they transitively Require from ZV) for
        forbidden vernacular."""
        seen, todo, bad = set(), list(files), []
        while todo:
            f = todo.pop()
            if f in seen:
                continue
            seen.add(f)
            path = os.path.join(COQ, f)
            if not os.path.exists(path):
                bad.append("%s: missing" % f)
                continue
            src = strip_comments(open(path).read())
            for m in FORBIDDEN.finditer(src):
                bad.append("%s: forbidden '%s'" % (f, m.group(0)))
            for m in re.finditer(r"From\s+ZV\s+Require\s+(?:Import|Export)\s+([A-Za-z0-9_.\s]+?)\.(?=\s|$)", src):
                for mod in m.group(1).split():
                    todo.append(mod.replace(".", "/") + ".v")
        return bad, sorted(seen)

    def coq_props(self, propfile, timeout=900):
        """Re-check the pinned theorem file with coqc and parse Print Assumptions output.
        Returns (ok, log). Sets obligations/discharged."""
        src = strip_comments(open(os.path.join(COQ, propfile)).read())
        names = re.findall(r"\b(?:Theorem|Lemma|Corollary|Example)\s+([A-Za-z0-9_']+)", src)
        printed = re.findall(r"Print\s+Assumptions\s+([A-Za-z0-9_']+)", src)
        self.obligations += len(names)
        self.theorems += names
        cmd = "coqc -Q . ZV %s" % propfile
        self.checker_cmds.append("cd coq && " + cmd)
        rc, out = sh("flock %s/.build.lock %s" % (COQ, cmd), timeout=timeout, cwd=COQ)
        if rc != 0:
            return False, out
        closed = len(re.findall(r"Closed under the global context", out))
        axioms = re.findall(r"Axioms:\s*\n((?:.+\n?)*)", out)
        self.assumption_reports.append(
            {"file": propfile, "print_assumptions": len(printed), "closed": closed,
             "axioms": [a.strip() for a in axioms]})
        if axioms or closed != len(printed):
            return False, out + "\n[audit] assumptions not closed: %d of %d closed; axioms=%r" % (
                closed, len(printed), axioms)
        missing = [n for n in names if not n.endswith("nonvacuous") and n not in printed
                   and not n.startswith("Ex_")]
        if missing:
            return False, out + "\n[audit] theorems without Print Assumptions: %r" % missing
        self.discharged += len(names)
        return True, out

    def prove(self, targets, propfile, extra_audit=()):
        """Standard proof step. Returns True when every obligation is discharged; otherwise
        records the broken obligation (the caller continues with the search for a failing input
        and finally calls finish())."""
        ok, log = self.coq_build(list(targets) + [propfile])
        self.proof_ok = True
        if not ok:
            self.proof_ok = False
            self.proof_log = log[-4000:]
            src = strip_comments(open(os.path.join(COQ, propfile)).read()) if os.path.exists(
                os.path.join(COQ, propfile)) else ""
            names = re.findall(r"\b(?:Theorem|Lemma|Corollary|Example)\s+([A-Za-z0-9_']+)", src)
            self.obligations += len(names)
            self.theorems += names
            m = re.search(r'File "([^"]+)", line (\d+)', log)
            self.broken = "Coq build failed at %s" % (m.group(0) if m else "?")
            return False
        ok, log = self.coq_props(propfile)
        if not ok:
            self.proof_ok = False
            self.proof_log = log[-4000:]
            self.broken = "pinned theorem file %s no longer checks" % propfile
            return False
        bad, seen = self.coq_audit([propfile] + list(extra_audit))
        self.audited_files = seen
        if bad:
            self.proof_ok = False
            self.proof_log = "\n".join(bad)
            self.broken = "audit: " + "; ".join(bad[:5])
            return False
        return True

    def coq_eval(self, name, header, items, render, per_shard=150, fn="check", timeout=2400):
        """Evaluate `fn` on every item inside Coq, sharded over parallel coqc processes.
        `render(item)` gives the Gallina term of one case. Returns {index: code} for non-zero
        codes, or raises RuntimeError with the log when coqc fails."""
        d = os.path.join(self.workdir, name)
        if os.path.isdir(d):
            for f in os.listdir(d):
                os.unlink(os.path.join(d, f))
        os.makedirs(d, exist_ok=True)
        shards = [items[i:i + per_shard] for i in range(0, len(items), per_shard)]
        jobs = []
        for k, shard in enumerate(shards):
            path = os.path.join(d, "s%04d.v" % k)
            with open(path, "w") as f:
                f.write(header + "\nSet Printing Width 1000000.\n")
                f.write("Definition cases := [\n")
                f.write(";\n".join(render(it) for it in shard))
                f.write("\n].\n")
                f.write("Eval vm_compute in (Common.Exec.bad %s cases).\n" % fn)
            jobs.append((k, path))

        def run(job):
            k, path = job
            rc, out = sh("ulimit -s unlimited 2>/dev/null || ulimit -s 1000000 2>/dev/null; "
                         "coqc -noglob -Q %s ZV -Q %s W %s" % (COQ, d, path), timeout=timeout, cwd=d)
            return k, rc, out
        bad = {}
        with ThreadPoolExecutor(max_workers=16) as ex:
            for k, rc, out in ex.map(run, jobs):
                if rc != 0:
                    raise RuntimeError("coqc failed on shard %d of %s:\n%s" % (k, name, out[-3000:]))
                flat = " ".join(out.split())
                m = re.search(r"= (\[.*\])\s*: list \(N \* N\)", flat)
                if not m:
                    raise RuntimeError("cannot parse coqc output of shard %d: %s" % (k, flat[-500:]))
                for mm in re.finditer(r"\(\s*(\d+)\s*,\s*(\d+)\s*\)", m.group(1)):
                    bad[k * per_shard + int(mm.group(1))] = int(mm.group(2))
        self.checker_cmds.append("coqc -Q coq ZV work/%s/run-*/%s/s*.v  (%d shards, vm_compute)" % (
            self.pid, name, len(shards)))
        return bad

    def coq_show(self, header, term, timeout=300):
        """Evaluate one term and return Coq's printed output (for replay files)."""
        d = os.path.join(self.workdir, "show")
        os.makedirs(d, exist_ok=True)
        path = os.path.join(d, "show_%d.v" % os.getpid())
        with open(path, "w") as f:
            f.write(header + "\nEval vm_compute in (%s).\n" % term)
        rc, out = sh("coqc -noglob -Q %s ZV %s" % (COQ, path), timeout=timeout, cwd=d)
        return " ".join(out.split())

    # ---------------------------------------------------------------- harness
    def harness_build(self, bins, timeout=1500):
        root = harness_root()
        lock = os.path.join(root, "Cargo.lock")
        if not os.path.exists(lock):
            sh("cp %s/Cargo.lock %s" % (REPO, lock))
        cmd = "cargo build --offline " + " ".join("--bin " + b for b in bins)
        rc, out = sh(cmd, timeout=timeout, cwd=root)
        return rc == 0, out

    def harness_run(self, binname, cases, timeout=900, shards=16, args=""):
        """Run a harness binary on JSON cases (one per line on stdin), in parallel shards.
        Returns the list of result dicts in case order."""
        exe = os.path.join(harness_root(), "target", "debug", binname)
        if not cases:
            return []
        n = max(1, min(shards, len(cases)))
        parts = [cases[i::n] for i in range(n)]

        def run(part):
            inp = "\n".join(json.dumps(c, separators=(",", ":")) for c in part) + "\n"
            rc, out = sh("%s %s" % (exe, args), timeout=timeout, input=inp)
            res = []
            for line in out.splitlines():
                line = line.strip()
                if line.startswith("{"):
                    try:
                        res.append(json.loads(line))
                    except ValueError:
                        pass
            return rc, res, out
        results = {}
        with ThreadPoolExecutor(max_workers=n) as ex:
            for part, (rc, res, out) in zip(parts, ex.map(run, parts)):
                byid = {r.get("id"): r for r in res}
                for c in part:
                    r = byid.get(c["id"])
                    if r is None:
                        r = {"id": c["id"], "crash": True, "log": out[-500:]}
                    results[c["id"]] = r
        out = [results[c["id"]] for c in cases]
        # wake-up contract (harness/src/lib.rs): a poll that returned Pending although no scripted
        # transport was pending in it and nobody woke the task would sleep for ever under a real executor
        shown = 0
        for c, r in zip(cases, out):
            if r.get("lost_wakeups") and shown < 3:
                shown += 1
                slim = {k: v for k, v in r.items() if k not in ("segs", "oracles", "writes")}
                self.violation("a future returned Pending %d time(s) although the transport was not pending and no "
                               "wake-up was arranged: under a real executor the task would sleep although it can make "
                               "progress" % r["lost_wakeups"], {"case": c, "impl": slim, "harness": binname},
                               tag="wake%s" % c["id"])
        return out

    # ---------------------------------------------------------------- reporting
    def write_replay(self, tag, obj):
        path = os.path.join(REPLAY, "%s-%s.json" % (self.pid, tag))
        with open(path, "w") as f:
            json.dump(obj, f, indent=1, sort_keys=True)
        return path

    def violation(self, what, replay_obj, tag=None, no_input=False, sig=None):
        """Record a violation unless it matches an open known finding."""
        for fd in self.findings:
            if fd.get("property") == self.pid and fd.get("status") == "open" and sig and \
                    fd.get("signature") == sig:
                self.known_hits.append((fd, what))
                return
        tag = tag or ("v%d" % len(self.violations))
        replay_obj = dict(replay_obj)
        replay_obj.update({"property": self.pid, "what": what, "seed": self.seed,
                           "rerun": "bin/check %s --replay <this file>" % self.pid})
        path = self.write_replay(tag, replay_obj)
        self.violations.append({"what": what, "replay": path, "no_input": no_input})

    def finish(self, level="proof", rule="", explanation=""):
        """Print KNOWN-FINDING / VIOLATION lines, write the evidence file, exit."""
        if not getattr(self, "proof_ok", True):
            has_input = any(not v["no_input"] for v in self.violations)
            if not has_input:
                self.violation(self.broken, {"broken_obligation": self.broken,
                                             "log": getattr(self, "proof_log", "")},
                               tag="proof", no_input=True)
        seen = set()
        for fd, what in self.known_hits:
            key = fd.get("signature")
            if key in seen:
                continue
            seen.add(key)
            print("KNOWN-FINDING: property=%s %s" % (self.pid, fd.get("what", what)))
        # stale open findings: listed but not reproduced by this run
        for fd in self.findings:
            if fd.get("property") == self.pid and fd.get("status") == "open" and \
                    fd.get("signature") not in seen and fd.get("must_reproduce", True) and \
                    getattr(self, "ran_correspondence", False) and self.tier in fd.get("tiers", ["quick", "thorough"]):
                self.notes.append("open finding %s was not reproduced by this run" % fd.get("signature"))
        has_input = any(not v["no_input"] for v in self.violations)
        for v in self.violations:
            if v["no_input"] and has_input:
                continue
            line = "VIOLATION property=%s replay=%s" % (self.pid, v["replay"])
            if v["no_input"]:
                line += " no-failing-input-found"
            print(line)
            print("  " + v["what"][:300])
        cov = dict(self.cov)
        cov.setdefault("obligations", self.obligations)
        cov.setdefault("discharged", self.discharged)
        cov.setdefault("checker_cmd", " ; ".join(dict.fromkeys(self.checker_cmds)) or "coqc")
        cov.setdefault("trusted_base", TRUSTED_BASE)
        cov.setdefault("theorems", self.theorems)
        cov.setdefault("print_assumptions", self.assumption_reports)
        cov.setdefault("samples", self.samples[:12] or ["(none)"])
        if rule:
            cov.setdefault("rule", rule)
        if explanation:
            cov.setdefault("explanation", explanation)
        cov.setdefault("known_findings_reproduced", sorted(seen))
        if self.notes:
            cov["notes"] = self.notes
        if cov.get("discharged", 0) < 1 or cov.get("obligations", 0) < 1:
            # keep the file schema-valid even when the proof step failed: without a positive
            # `discharged` the schema falls back to the exploration-style counts
            cov["obligations"] = max(1, cov.get("obligations", 0))
            cov.pop("discharged", None)
            cov["discharged_none"] = True
            cov["evaluations"] = max(1, cov.get("evaluations", 0))
            cov["distinct_nontrivial"] = max(2, cov.get("distinct_nontrivial", 0))
        ev = {
            "property_id": self.pid, "tier": self.tier, "seed": self.seed, "level": level,
            "coverage": cov, "assumptions": self.assumptions,
            "wall_s": round(time.time() - self.t0, 2), "violations": len(self.violations),
        }
        os.makedirs(EVID, exist_ok=True)
        with open(os.path.join(EVID, "%s.json" % self.pid), "w") as f:
            json.dump(ev, f, indent=1)
        if not self.violations:
            import shutil
            shutil.rmtree(self.workdir, ignore_errors=True)
        sys.stdout.flush()
        sys.exit(1 if self.violations else 0)


def strip_comments(src):
    out, depth, i = [], 0, 0
    while i < len(src):
        if src.startswith("(*", i):
            depth += 1
            i += 2
        elif src.startswith("*)", i) and depth > 0:
            depth -= 1
            i += 2
        else:
            if depth == 0:
                out.append(src[i])
            i += 1
    return "".join(out)


def load_findings():
    p = os.path.join(VERIF, "KNOWN_FINDINGS.json")
    if not os.path.exists(p):
        return []
    return json.load(open(p)).get("findings", [])


def coq_bytes(b):
    return "[" + ";".join(str(x) for x in b) + "]%N"


def coq_list(items):
    return "[" + "; ".join(items) + "]"


def case_hash(obj):
    return hashlib.sha1(json.dumps(obj, sort_keys=True).encode()).hexdigest()


def hexs(b):
    return bytes(b).hex()
