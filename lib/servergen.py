"""Case generation and rendering shared by the server-family checks (C08, C09, C10, C18).

A case is {"id", "script": [event..], "hyp": [cid..], "tag", "info"}; events as in
harness/src/bin/server.rs.  `hyp` lists the connections to which the sequential reference
(ServerExec.spec_out) applies: every frame is a valid call naming its own connection, no
transport fault, no call on a shared counter."""
import itertools
import json

from vlib import coq_bytes, coq_list

HEADER = ("From ZV Require Import Common.Exec Server.Server Server.ServerExec.\n"
          "Open Scope N_scope.\n")

KINDS = {"Echo": 0, "Ping": 1, "Count": 2, "Total": 3, "Fail": 4, "Sub": 5, "Say": 6}


class Tags:
    """Unique tags for calls (the service records them; replies carry them)."""
    def __init__(self):
        self.n = 0

    def next(self):
        self.n += 1
        return self.n


# members a call may carry besides the ones the protocol knows (the decoder passes them over): the empty
# name, names next to the flags', non-ASCII names, values of every JSON kind
EXTRA_MEMBERS = [("", 0), ("", {"a": [1, None]}), ("x", None), ("Method", "org.zv.Nope"), ("more ", True),
                 ("\u00e9", [True]), ("o", "neway"), ("m", 1.5), ("u", {}), ("onewa", False), ("upgrades", True)]


def pick_extra(rng, p=0.25):
    """With probability p one or two unknown members (and where to put them)."""
    if rng.random() >= p:
        return None
    return [(n, v, rng.randrange(0, 6)) for n, v in rng.sample(EXTRA_MEMBERS, rng.choice([1, 1, 2]))]


def call(kind, c, t, v=0, oneway=False, more=False, shuffle=None, s="", raw_utf8=False, upgrade=False,
         order=None, extra=None):
    """Wire bytes (without terminator) of a valid call.  Each flag (oneway, more, upgrade): False = member
    absent, True = written as true, "false" = written out as false.  kind "Say" carries the string s, which
    the service echoes.  order: a permutation (list of member names) fixing the member positions; shuffle: an
    rng that shuffles them."""
    params = {"c": c, "t": t}
    if kind in ("Echo", "Fail"):
        params["v"] = v
    if kind == "Say":
        params["s"] = s
    items = [("method", "org.zv." + kind), ("parameters", params)]
    for name, val in (("oneway", oneway), ("more", more), ("upgrade", upgrade)):
        if val is True:
            items.append((name, True))
        elif val == "false":
            items.append((name, False))
    if order is not None:
        items.sort(key=lambda kv: order.index(kv[0]) if kv[0] in order else len(order))
    if shuffle is not None:
        shuffle.shuffle(items)
    for name, val, pos in (extra or []):
        if name not in dict(items):
            items.insert(min(pos, len(items)), (name, val))
    return json.dumps(dict(items), separators=(",", ":"), ensure_ascii=not raw_utf8).encode()


# io::ErrorKind values a transport write can fail with (None = zlink's own Error::SocketWrite)
IO_KINDS = [None, "Interrupted", "WouldBlock", "TimedOut", "BrokenPipe", "ConnectionReset", "UnexpectedEof", "Other"]


def fw(c, k, kind=None):
    return ["fw", c, k] + ([kind] if kind else [])


FLAG = [False, True, "false"]
# every combination of the three flags (absent / true / written-out false): 27
FLAG_COMBOS = [(o, m, u) for o in FLAG for m in FLAG for u in FLAG]
MEMBER_ORDERS = [["method", "parameters", "oneway", "more", "upgrade"],
                 ["oneway", "more", "upgrade", "method", "parameters"],
                 ["more", "method", "oneway", "parameters", "upgrade"],
                 ["upgrade", "parameters", "more", "method", "oneway"],
                 ["parameters", "oneway", "method", "upgrade", "more"]]


def is_oneway(flag):
    return flag is True


MORE = [False, True, "false"]

UTF8_BAD = ["utf8_%s@%s" % (b, w)
            for b in ("lone_continuation", "lone_continuation2", "truncated2", "truncated3", "truncated4",
                      "overlong2", "overlong3", "ff", "fe", "surrogate", "too_big")
            for w in ("bare", "before", "after", "in_string", "in_method", "in_key")]

# strings a client may send: U+0000 and other control characters, quotes and backslashes, multi-byte
# characters (2, 3 and 4 bytes), and mixtures
NASTY = ["\u0000", "a\u0000b", "\u0000\u0000", "\u0001\u001f\u007f", "tab\there\nnl\rcr\bbs\fff",
         'q"uote', "back\\slash", '\\"', "/slash", "\u00e9\u00fc", "\u20ac\u4e2d", "\U0001f600",
         "mix\u0000\"\\\u00e9\u20ac\U0001f600\u001b", "", "plain ascii", "\u2028\u2029", "\ud7ff\ue000"]


def nasty(rng):
    if rng.random() < 0.7:
        return rng.choice(NASTY)
    alphabet = ["\u0000", "\u0001", "\u001f", "\n", "\t", '"', "\\", "/", "a", "Z", " ", "\u007f", "\u0080",
                "\u00e9", "\u07ff", "\u0800", "\u20ac", "\uffff", "\U00010000", "\U0001f600"]
    return "".join(rng.choice(alphabet) for _ in range(rng.randrange(0, 9)))


def bad_frame(kind, c, t, rng=None):
    """Frames the service cannot decode."""
    if kind == "garbage":
        return b"\x01\x02garbage{{"
    if kind == "unknown_method":
        return json.dumps({"method": "org.zv.Nope", "parameters": {"c": c, "t": t}}, separators=(",", ":")).encode()
    if kind == "wrong_types":
        return json.dumps({"method": "org.zv.Echo", "parameters": {"c": c, "t": t, "v": "x"}}, separators=(",", ":")).encode()
    if kind == "missing_params":
        return json.dumps({"method": "org.zv.Echo"}, separators=(",", ":")).encode()
    if kind == "not_object":
        return b"[1,2,3]"
    if kind == "truncated_json":
        return call("Echo", c, t, 5)[:-3]
    if kind.startswith("deep_"):
        # one well-framed Echo call whose v is nested `depth` levels deep (arrays or objects); "parameters"
        # before "method" (p: serde's adjacently tagged enum buffers the content first) or after it (m)
        _, depth, shape, first = kind.split("_")
        return deep_frame(c, int(depth), "[" if shape == "arr" else '{"a":', first == "p")
    if kind.startswith("utf8_"):
        # bytes that are not UTF-8: outside of any string, or inside a string parameter of an otherwise
        # valid call
        bad = {"lone_continuation": b"\x80", "lone_continuation2": b"\xbf\xbf", "truncated2": b"\xc3",
               "truncated3": b"\xe2\x82", "truncated4": b"\xf0\x9f\x98", "overlong2": b"\xc0\xaf",
               "overlong3": b"\xe0\x80\xaf", "ff": b"\xff", "fe": b"\xfe", "surrogate": b"\xed\xa0\x80",
               "too_big": b"\xf4\x90\x80\x80"}[kind[5:].split("@")[0]]
        where = kind.split("@")[1]
        if where == "bare":
            return bad
        if where == "before":
            return bad + call("Echo", c, t, 5)
        if where == "after":
            return call("Echo", c, t, 5) + bad
        if where == "in_string":
            return call("Say", c, t, s="a@@b").replace(b"@@", bad)
        if where == "in_method":
            return call("Echo", c, t, 5).replace(b"org.zv.Echo", b"org.zv." + bad + b"Echo")
        if where == "in_key":
            return call("Echo", c, t, 5).replace(b'"oneway"', b'"one' + bad + b'way"') if False else \
                call("Echo", c, t, 5).replace(b'"v"', b'"v' + bad + b'"')
        raise ValueError(kind)
    raise ValueError(kind)


def deep_frame(c, depth, opener, params_first):
    """The frame harness/src/bin/server.rs generates for the event ["deep", c, depth, opener, pfirst]."""
    closer = "]" if opener.startswith("[") else "}"
    v = opener * depth + "1" + closer * depth
    params = '"parameters":{"c":%d,"t":999999,"v":%s}' % (c, v)
    method = '"method":"org.zv.Echo"'
    return ("{%s,%s}" % ((params, method) if params_first else (method, params))).encode()


READ_KINDS = ["Interrupted", "WouldBlock", "TimedOut", "ConnectionReset", "UnexpectedEof", "Other"]


def fr(c, kind=None, persistent=False):
    return ["fr", c] + ([kind, 1 if persistent else 0] if kind else [])


def wire(frames):
    return b"".join(f + b"\0" for f in frames)


def cut(stream, cuts):
    """Split a byte string at the given positions (ignoring 0, len and duplicates)."""
    out, prev = [], 0
    for p in sorted(set(cuts)):
        if 0 < p < len(stream):
            out.append(stream[prev:p])
            prev = p
    out.append(stream[prev:])
    return [x for x in out if x]


def interleavings(seqs):
    """All merges of the given sequences (each keeps its own order)."""
    seqs = [list(s) for s in seqs if s]
    if not seqs:
        yield []
        return
    for i, s in enumerate(seqs):
        rest = seqs[:i] + [s[1:]] + seqs[i + 1:]
        for tail in interleavings(rest):
            yield [s[0]] + tail


def n_interleavings(lens):
    import math
    tot = math.factorial(sum(lens))
    for l in lens:
        tot //= math.factorial(l)
    return tot


def random_merge(rng, seqs):
    seqs = [list(s) for s in seqs if s]
    out = []
    while seqs:
        w = [len(s) for s in seqs]
        i = rng.choices(range(len(seqs)), weights=w)[0]
        out.append(seqs[i].pop(0))
        if not seqs[i]:
            seqs.pop(i)
    return out


def with_polls(events, mask):
    """Insert a Poll after event i when mask bit i is set; always end with a Poll."""
    out = []
    for i, e in enumerate(events):
        out.append(e)
        if (mask >> i) & 1:
            out.append(["p"])
    if not out or out[-1] != ["p"]:
        out.append(["p"])
    return out


# ---------------------------------------------------------------- rendering for Coq
def nat(n):
    return "%d%%nat" % n


def coq_xev(e):
    k = e[0]
    if k == "n":
        return "XNew %s" % nat(e[1])
    if k == "lf":
        return "XLf"
    if k == "a":
        return "XArr %s %s" % (nat(e[1]), coq_bytes(bytes.fromhex(e[2])))
    if k == "c":
        return "XClose %s" % nat(e[1])
    if k == "fr":
        return "XFailR %s" % nat(e[1])
    if k == "fw":
        return "XFailW %s %s" % (nat(e[1]), nat(e[2]))
    if k == "si":
        return "XItem %s %d %d" % (nat(e[1]), e[2], e[3])
    if k == "se":
        return "XEnd %s" % nat(e[1])
    if k == "p":
        return "XPoll"
    raise ValueError(e)


TMPL_ORDER = ["single", "ping", "error", "item0", "item1", "item2", "say"]


def render_case(c, res, step, limit):
    tab = []
    for hx, v in sorted(res["segs"].items()):
        tab.append("(%s, %s)" % (coq_bytes(bytes.fromhex(hx)),
                                 "[" + ";".join(str(x) for x in v) + "]" if v is not None else "[]"))
    tmpl = coq_list([coq_list([coq_bytes(bytes.fromhex(p)) for p in res["tmpl"][k]]) for k in TMPL_ORDER])
    exp = []
    for p in res["polls"]:
        tr = coq_list(["[" + ";".join(str(x) for x in e) + "]" for e in p["tr"]])
        exp.append("(%s, [%s])" % (tr, ";".join(str(x) for x in p["snap"])))
    strs = coq_list([coq_bytes(bytes.fromhex(x)) for x in res.get("strs", [])])
    return ("{| sc_step := %d; sc_limit := %d; sc_tab := %s; sc_tmpl := %s; sc_strs := %s; sc_script := %s; "
            "sc_expect := %s; sc_hyp := %s |}") % (
        step, limit, coq_list(tab), tmpl, strs,
        coq_list([coq_xev(e) for e in c["script"] if e[0] not in ("hg", "wp")]),
        coq_list(exp), coq_list([nat(k) for k in c.get("hyp", [])]))


# ---------------------------------------------------------------- reading results
def writes_of(res, cid):
    """The write calls the implementation made on connection cid (bytes each)."""
    out = []
    for p in res["polls"]:
        for e in p["tr"]:
            if e[0] == 3 and e[1] == cid:
                out.append(bytes(e[2:]))
    return out


def invocations(res):
    return [e[1] for p in res["polls"] for e in p["tr"] if e[0] == 2]


def dropped(res):
    return [e[1] for p in res["polls"] for e in p["tr"] if e[0] == 5]


def pretty_trace(res):
    out = []
    for i, p in enumerate(res.get("polls", [])):
        for e in p["tr"]:
            if e[0] == 3:
                out.append("poll %d: write c%d %r" % (i, e[1], bytes(e[2:])))
            else:
                out.append("poll %d: %s" % (i, {1: "accept c%d", 2: "invoke t%d", 7: "new-stream key%d",
                                                4: "write-fail c%d", 5: "drop c%d", 6: "stream-drop key%d",
                                                8: "stream-yield key%d", 9: "exit"}.get(e[0], "?") % tuple(e[1:2])))
    return out


def script_summary(script):
    out = []
    for e in script:
        if e[0] == "a":
            out.append("a%d:%r" % (e[1], bytes.fromhex(e[2])[:400]))
        else:
            out.append("".join(str(x) for x in e))
    return out


# ---------------------------------------------------------------- common driver
def consts(ck):
    """step and hook-lowered limit from the translator (as checks/c01.py)."""
    import os, re, sys
    from vlib import sh, VERIF
    rc, out = sh([sys.executable, os.path.join(VERIF, "translate", "consts.py")])
    m = re.search(r"BUFFER_SIZE=(\d+) MAX_BUFFER_SIZE=(\d+) HOOK_MAX=(\d+)", out)
    if rc != 0 or not m:
        ck.proof_ok, ck.broken, ck.proof_log = False, "translator consts.py: " + out.strip()[-300:], out
        return 256, 4096
    ck.samples.append("translated: " + out.strip())
    return int(m.group(1)), int(m.group(3))


def load_corpus(name):
    import os
    from vlib import VERIF
    out = []
    p = os.path.join(VERIF, "corpus", name)
    if os.path.exists(p):
        for line in open(p):
            if line.strip():
                c = json.loads(line)
                c["tag"] = "corpus"
                out.append(c)
    return out


def run_cases(ck, cases, step, limit, per_shard=60):
    """Run the implementation and the model on the cases.  Returns [(case, result, code)] where
    code is ServerExec.check's value (bit 0: impl != model, bit 1: impl != sequential spec);
    cases on which the harness crashed are reported here."""
    for i, c in enumerate(cases):
        c["id"] = i
    import os
    binname = os.environ.get("ZV_SERVER_BIN", "")      # mutation self-test only: a prebuilt harness binary
    if not binname:
        binname = "server"
        ok, log = ck.harness_build(["server"])
        if not ok:
            ck.violation("harness does not build against /repo", {"log": log[-3000:]}, tag="build", no_input=True)
            ck.finish()
    else:
        ck.notes.append("harness binary overridden by ZV_SERVER_BIN=%s" % binname)
    results = ck.harness_run(binname, cases)
    ck.ran_correspondence = True
    # logging must not change behaviour: the same cases with tracing disabled (no subscriber; the default
    # run has a subscriber that enables every level, so every log argument is evaluated) give the same results
    quiet = ck.harness_run(binname, cases, args="notrace")
    n_log = 0
    for c, r, r0 in zip(cases, results, quiet):
        if n_log < 3 and (r.get("polls"), r.get("panic"), r.get("why")) != (r0.get("polls"), r0.get("panic"), r0.get("why")):
            n_log += 1
            ck.violation("Server::run behaves differently with logging enabled (every level) and disabled: %s [%s]"
                         % ((r.get("why") or r0.get("why") or "the traces differ")[:160], c.get("tag", "")),
                         {"case": c, "with_logging": pretty_trace(r) if "polls" in r else r,
                          "without_logging": pretty_trace(r0) if "polls" in r0 else r0,
                          "script": script_summary(c["script"])}, tag="log%d" % c["id"])
    ck.cov["runs_with_and_without_logging_compared"] = len(cases)
    # every write call carries exactly one message: one terminator, at the end (nothing is sent twice or torn)
    n_fr = 0
    for c, r in zip(cases, results):
        bad = [e for p in r.get("polls", []) for e in p["tr"] if e[0] == 3 and (e[-1] != 0 or e[2:].count(0) != 1)]
        if bad and n_fr < 5:
            n_fr += 1
            ck.violation("a write on connection %d carries %d terminators (a reply or stream item was sent twice, "
                         "torn or merged): %r [%s]" % (bad[0][1], bad[0][2:].count(0), bytes(bad[0][2:])[:160], c.get("tag", "")),
                         {"case": c, "impl_trace": pretty_trace(r), "script": script_summary(c["script"])},
                         tag="frame%d" % c["id"])
    # the server must not go to sleep while something it could act on is immediately available
    n_sleep = 0
    for c, r in zip(cases, results):
        if r.get("sleeps") and n_sleep < 5:
            n_sleep += 1
            ck.violation("Server::run returned Pending although it could make progress (nothing would wake it): %s [%s]"
                         % ("; ".join(r["sleeps"][:3]), c.get("tag", "")),
                         {"case": c, "impl_trace": pretty_trace(r), "script": script_summary(c["script"])},
                         tag="sleep%d" % c["id"])
    items = []
    n_panic = 0
    for c, r in zip(cases, results):
        if r.get("panic") or r.get("crash"):
            n_panic += 1
            if n_panic > 5:
                continue
            why = r.get("why") or ("the harness produced no result for the case" if r.get("crash") else "panic")
            ck.violation("Server::run panicked or exceeded its budget on a scripted environment: %s [%s]"
                         % (why[:200], c.get("tag", "")),
                         {"case": c, "impl": r, "script": script_summary(c["script"])}, tag="panic%d" % c["id"])
            continue
        items.append((c, r))
    try:
        bad = ck.coq_eval("cases", HEADER, items, lambda it: render_case(it[0], it[1], step, limit),
                          per_shard=per_shard)
    except RuntimeError as e:
        ck.violation("model evaluation failed: " + str(e)[:300], {"log": str(e)}, tag="eval", no_input=True)
        bad = {}
    # cases with suspension points (Service::handle / reply writes pending for some polls) are outside the
    # model's assumptions: for them only the per-connection sequential reference is compared (bit 1)
    return [(c, r, bad.get(i, 0) & (2 if c.get("spec_only") else 3)) for i, (c, r) in enumerate(items)]


def show_model(ck, c, r, step, limit):
    term = render_case(c, r, step, limit)
    return ck.coq_show(HEADER, "(model_run (%s), map (fun k => (k, spec_out (%s) k)) (sc_hyp (%s)))" % (term, term, term))


def report_model_mismatch(ck, c, r, step, limit, extra=""):
    detail = {"case": c, "impl_trace": pretty_trace(r), "script": script_summary(c["script"]),
              "model_and_spec": show_model(ck, c, r, step, limit),
              "correspondence": "Server/Server.v run vs Server::run trace"}
    ck.violation("implementation differs from the Server model%s [%s]" % (extra, c.get("tag", "")),
                 detail, tag="m%d" % c["id"], no_input=True)


def coverage(ck, cases, out, step, limit, extra=None):
    from vlib import case_hash
    hist, nontriv, hashes = {}, set(), set()
    for c in cases:
        h = case_hash(c["script"])
        hashes.add(h)
        if len([e for e in c["script"] if e[0] == "a"]) >= 2:
            nontriv.add(h)
        hist[c.get("tag", "?")] = hist.get(c.get("tag", "?"), 0) + 1
    ck.cov.update({
        "evaluations": len(cases), "distinct_nontrivial": len(nontriv), "distinct": len(hashes),
        "traces_validated_against_impl": len(out),
        "service_invocations_observed": sum(len(invocations(r)) for _, r, _ in out),
        "case_classes": hist, "step": step, "limit_under_hook": limit,
    })
    if extra:
        ck.cov.update(extra)
    for c in cases[:2] + cases[len(cases) // 2: len(cases) // 2 + 2]:
        ck.samples.append({"script": script_summary(c["script"])[:8], "tag": c.get("tag", "?")})
    ck.assumptions += [
        "decode(frame) is obtained by running serde_json::from_slice::<Call<M>> on the isolated frame; "
        "reply texts are rendered by serde_json from the same values (templates), independently of the server",
        "the model is hand-written (Server/Server.v); its tie to server/mod.rs and select_all.rs is the "
        "trace-level correspondence after every poll of the real Server::run future (ordered accepts, "
        "service invocations, write calls with bytes and boundaries, failed writes, dropped sockets and "
        "streams, unread bytes per socket)",
        "writes complete immediately and Service::handle is ready immediately in the harness; the two "
        "`unsafe` reborrows in the loop are outside the model",
    ]


RULE = ("a case = an environment script (connects, byte arrivals, faults, stream events, polls); distinct by "
        "hash of the script; non-trivial = at least two byte arrivals")


# ---------------------------------------------------------------- production buffer limit (no hook cfg)
def run_nohook(ck, cases, one_process_per_case=False):
    """Run cases on the server harness built WITHOUT `--cfg zlink_verif` (production MAX_BUFFER_SIZE), for
    inputs far above the hook-lowered limit.  No Coq evaluation here (sizes): the caller compares results."""
    import os
    from vlib import sh, harness_root
    root = harness_root()
    rc, log = sh("cargo build --offline --bin server --target-dir %s" % os.path.join(root, "target-nohook"),
                 timeout=1500, cwd=root, env={"RUSTFLAGS": ""})
    if rc != 0:
        ck.violation("server harness does not build without the hook cfg", {"log": log[-3000:]}, tag="build-nohook",
                     no_input=True)
        return None
    for i, c in enumerate(cases):
        c["id"] = i
    return ck.harness_run(os.path.join(root, "target-nohook", "debug", "server"), cases,
                          shards=len(cases) if one_process_per_case else 8)


def big_call(c, t, total, v=1):
    """A valid Echo call whose frame INCLUDING its terminator is exactly `total` bytes long."""
    head = b'{"method":"org.zv.Echo","parameters":{"c":%d,"t":%d,"v":%d,"pad":"' % (c, t, v)
    tail = b'"}}'
    n = total - 1 - len(head) - len(tail)
    assert n >= 0
    return head + b"x" * n + tail


# ---------------------------------------------------------------- mutation self-test (not run by the checks)
# Property-breaking edits of /repo's server sources that compile and pass the 185 baseline tests; each
# was detected by the relevant check (VIOLATION with a replay) when the harness was built against it
# (try one with `ZV_REPO=<scratch worktree with the edit> bin/check C18 quick`, or prebuild the harness
# and pass it as ZV_SERVER_BIN).  (file, old text, new text)
MOD = "zlink-core/src/server/mod.rs"
SEL = "zlink-core/src/server/select_all.rs"
RC = "zlink-core/src/connection/read_connection.rs"
SERVER_MUTANTS = {
 "start_at_winner": [(MOD, "last_method_call_winner.map(|idx| idx + 1),", "last_method_call_winner,")],
 "start_at_zero": [(MOD, "last_method_call_winner.map(|idx| idx + 1),", "None,")],
 "remove_not_swap": [(MOD, "let conn = connections.swap_remove(idx);", "let conn = connections.remove(idx);")],
 "remove_wrong_index": [(MOD, "let conn = connections.swap_remove(idx);", "let conn = connections.swap_remove(0);")],
 "stream_swap_remove_wrong": [(MOD, "let stream = reply_streams.swap_remove(idx);", "let stream = reply_streams.swap_remove(0);")],
 "resume_front": [(MOD, "connections.push(stream.conn);", "connections.insert(0, stream.conn);")],
 "reply_on_last": [(MOD, "self.handle_call(call, connections[idx].write_mut()).await", "self.handle_call(call, connections.last_mut().unwrap().write_mut()).await")],
 "answer_oneway": [(MOD, "_ if oneway => (),", "_ if oneway && false => (),")],
 "drop_on_service_error": [(MOD, "MethodReply::Error(err) => writer.send_error(&err).await?,", "MethodReply::Error(err) => { writer.send_error(&err).await?; return Err(crate::Error::SocketWrite); }")],
 "stop_on_read_error": [(MOD, 'Err(e) => warn!("Error reading from socket: {:?}", e),', "Err(e) => return Err(e),")],
 "lose_buffered_on_resume": [(RC, "    /// The underlying read half of the socket.\n    pub fn read_half", "    pub(crate) fn discard_buffered(&mut self) { self.read_pos = 0; self.msg_pos = 0; }\n    /// The underlying read half of the socket.\n    pub fn read_half"),
                             (MOD, "let stream = reply_streams.swap_remove(idx);", "let mut stream = reply_streams.swap_remove(idx); stream.conn.read_mut().discard_buffered();")],
 "stream_start_at_winner": [(MOD, "let start_index = last_reply_stream_winner.map(|idx| idx + 1);", "let start_index = last_reply_stream_winner;")],
 "select_skips_start": [(SEL, "let idx = (start_idx + i) % num_futures;", "let idx = (start_idx + i + 1) % num_futures;")],
 "item_write_failure_ignored": [(MOD, "reply_streams.swap_remove(idx);\n                            }", "}")],
 "lastc_stuck_at_zero": [(MOD, "last_method_call_winner = Some(idx);", "last_method_call_winner = Some(idx * 0);")],
}
