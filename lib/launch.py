"""Launcher for checks/cXX.py: an unexpected exception inside a check must not pass silently and
must not look like a finding with an input: it is reported as a broken check
(VIOLATION ... no-failing-input-found, replay = the traceback)."""
import importlib.util, json, os, sys, time, traceback

VERIF = os.path.dirname(os.path.dirname(os.path.abspath(__file__)))
sys.path.insert(0, os.path.join(VERIF, "lib"))
sys.path.insert(0, os.path.join(VERIF, "checks"))


def main():
    pid = sys.argv[1].upper()
    path = os.path.join(VERIF, "checks", pid.lower() + ".py")
    sys.argv = [path] + sys.argv[2:]
    t0 = time.time()
    if os.environ.get("ZV_EVID_ALT") or os.path.realpath(os.environ.get("ZV_REPO", "/repo")) != "/repo":
        # runs against scratch checkouts (seeded changes, bin/coverage) share work/ and work/evidence-alt:
        # one at a time per property, so that two of them never read each other's files
        import fcntl
        os.makedirs(os.path.join(VERIF, "work"), exist_ok=True)
        global _alt_lock
        _alt_lock = open(os.path.join(VERIF, "work", ".alt-%s.lock" % pid), "w")
        fcntl.flock(_alt_lock, fcntl.LOCK_EX)
    try:
        spec = importlib.util.spec_from_file_location("check_" + pid, path)
        mod = importlib.util.module_from_spec(spec)
        spec.loader.exec_module(mod)
        mod.main()
    except SystemExit:
        raise
    except BaseException:
        tb = traceback.format_exc()
        import vlib
        os.makedirs(vlib.REPLAY, exist_ok=True)
        rp = os.path.join(vlib.REPLAY, "%s-crash.json" % pid)
        json.dump({"property": pid, "what": "the check itself crashed", "traceback": tb}, open(rp, "w"), indent=1)
        print("VIOLATION property=%s replay=%s no-failing-input-found" % (pid, rp))
        print("  check crashed: " + tb.strip().splitlines()[-1][:200])
        ev = {"property_id": pid, "tier": os.environ.get("VERIF_TIER", "quick"), "seed": 1, "level": "other",
              "coverage": {"explanation": "the check crashed before completing; see " + rp}, "wall_s": round(time.time() - t0, 2),
              "violations": 1}
        os.makedirs(vlib.EVID, exist_ok=True)
        json.dump(ev, open(os.path.join(vlib.EVID, pid + ".json"), "w"), indent=1)
        sys.exit(1)


if __name__ == "__main__":
    main()
