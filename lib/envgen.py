"""Envelope cases for C04 / C05: JSON trees that keep member order and duplicates, their wire text and
their Coq (`jval`) rendering, the corpus tables (Rust type name -> Coq shape name), frame generators
and the common run/compare machinery."""
import itertools
import json
import os
import re

from vlib import *

HEADER = ("From ZV Require Import Common.Exec Shapes.EnvExec.\n"
          "Open Scope string_scope.\nOpen Scope list_scope.\nOpen Scope N_scope.\n")


# ------------------------------------------------------------------------------------------------
# JSON trees: None, bool, int, Flt(token), str, list, Obj([(k, v), ...])
class Obj:
    __slots__ = ("ms",)

    def __init__(self, ms):
        self.ms = [(k, v) for k, v in ms]

    def __eq__(self, o):
        return isinstance(o, Obj) and self.ms == o.ms

    def __repr__(self):
        return "Obj(%r)" % (self.ms,)

    def keys(self):
        return [k for k, _ in self.ms]

    def get(self, k):
        for kk, v in self.ms:
            if kk == k:
                return v
        return None


class Flt:
    __slots__ = ("tok",)

    def __init__(self, tok):
        self.tok = tok

    def __eq__(self, o):
        return isinstance(o, Flt) and self.tok == o.tok

    def __repr__(self):
        return "Flt(%s)" % self.tok


def O(*ms):
    return Obj(list(ms))


def jtext_str(s):
    """JSON string literal with minimal escapes (only what RFC 8259 requires), raw UTF-8."""
    out = ['"']
    for ch in s:
        c = ord(ch)
        if ch == '"':
            out.append('\\"')
        elif ch == "\\":
            out.append("\\\\")
        elif c < 32:
            out.append("\\u%04x" % c)
        else:
            out.append(ch)
    out.append('"')
    return "".join(out)


def jtext(v):
    if v is None:
        return "null"
    if v is True:
        return "true"
    if v is False:
        return "false"
    if isinstance(v, int):
        return str(v)
    if isinstance(v, Flt):
        return v.tok
    if isinstance(v, str):
        return jtext_str(v)
    if isinstance(v, list):
        return "[" + ",".join(jtext(x) for x in v) + "]"
    if isinstance(v, Obj):
        return "{" + ",".join(jtext_str(k) + ":" + jtext(x) for k, x in v.ms) + "}"
    raise TypeError(repr(v))


def esc_name(name, rng, mode):
    """A member name written with escape sequences that JSON allows for ANY character (\\uXXXX): the
    decoded name is the same string, so the frame denotes the same object.  mode: one | first | all."""
    if not name:
        return '""'
    chars = list(name)
    if mode == "all":
        idx = set(range(len(chars)))
    elif mode == "first":
        idx = {0}
    else:
        idx = {rng.randrange(len(chars))}
    out = ['"']
    for i, ch in enumerate(chars):
        c = ord(ch)
        if i in idx and c < 0x10000:
            out.append("\\u%04x" % c)
        else:
            out.append(jtext_str(ch)[1:-1])
    out.append('"')
    return "".join(out)


def jtext_esc(v, rng, mode="one", depth=0, top_only=False):
    """Like jtext, but every member name (of the envelope, and unless top_only of nested objects too)
    is written with escape sequences.  String VALUES stay minimally escaped (borrowed &str targets)."""
    if isinstance(v, list):
        return "[" + ",".join(jtext_esc(x, rng, mode, depth + 1, top_only) for x in v) + "]"
    if isinstance(v, Obj):
        def name(k):
            return esc_name(k, rng, mode) if (depth == 0 or not top_only) else jtext_str(k)
        return "{" + ",".join(name(k) + ":" + jtext_esc(x, rng, mode, depth + 1, top_only) for k, x in v.ms) + "}"
    return jtext(v)


def no_dups_deep(v):
    """No object anywhere in the value has two members of the same name (serde_json::Value cannot
    represent such objects, so from_value is only comparable on these)."""
    if isinstance(v, list):
        return all(no_dups_deep(x) for x in v)
    if isinstance(v, Obj):
        return len(set(v.keys())) == len(v.ms) and all(no_dups_deep(x) for _, x in v.ms)
    return True


def jparse(text):
    """Parse JSON text into a tree, keeping member order, duplicates and float tokens."""
    return json.loads(text, object_pairs_hook=lambda ps: Obj(ps), parse_float=Flt)


def from_plain(v):
    """A plain Python JSON value (dict = sorted unique members) -> tree."""
    if isinstance(v, dict):
        return Obj([(k, from_plain(x)) for k, x in v.items()])
    if isinstance(v, list):
        return [from_plain(x) for x in v]
    if isinstance(v, float):
        return Flt(repr(v))
    return v


_PLAIN = re.compile(r"^[ !#-~]*$")  # printable ASCII without the double quote


def coq_str(s):
    if _PLAIN.match(s):
        return '"%s"' % s
    if all(32 <= ord(c) < 127 for c in s):
        return '"%s"' % s.replace('"', '""')
    return "(bs [%s]%%N)" % ";".join(str(b) for b in s.encode("utf-8"))


def coq_jval(v):
    if v is None:
        return "JNull"
    if v is True:
        return "(JBool true)"
    if v is False:
        return "(JBool false)"
    if isinstance(v, int):
        return "(JNum (%d)%%Z)" % v
    if isinstance(v, Flt):
        return "(JFlt %s)" % coq_str(v.tok)
    if isinstance(v, str):
        return "(JStr %s)" % coq_str(v)
    if isinstance(v, list):
        return "(JArr [%s])" % "; ".join(coq_jval(x) for x in v)
    if isinstance(v, Obj):
        return "(JObj [%s])" % "; ".join("(%s, %s)" % (coq_str(k), coq_jval(x)) for k, x in v.ms)
    raise TypeError(repr(v))


def coq_rval(c):
    """Canonical tree printed by the harness -> Coq rval."""
    if c == "u":
        return "RUnit"
    if "b" in c:
        return "(RBool %s)" % ("true" if c["b"] else "false")
    if "i" in c:
        return "(RInt (%s)%%Z)" % int(c["i"])
    if "s" in c:
        return "(RStr %s)" % coq_str(bytes.fromhex(c["s"]).decode("utf-8"))
    if "o" in c:
        return "RNone" if not c["o"] else "(RSome %s)" % coq_rval(c["o"][0])
    if "l" in c:
        return "(RSeq [%s])" % "; ".join(coq_rval(x) for x in c["l"])
    if "r" in c:
        return "(RStruct [%s])" % "; ".join(coq_rval(x) for x in c["r"])
    if "v" in c:
        return "(RVar %d [%s])" % (c["v"], "; ".join(coq_rval(x) for x in c["f"]))
    if "j" in c:
        return "(RAny %s)" % coq_jval(from_plain_keep(c["j"]))
    raise ValueError(repr(c))


def from_plain_keep(v):
    # harness output was parsed with jparse (Obj trees) or plain json (dicts); accept both
    if isinstance(v, (Obj, Flt)):
        return v
    return from_plain(v)


def coq_opt(x, f):
    return "None" if x is None else "(Some %s)" % f(x)


def coq_outcome(o):
    k = o["k"]
    if k == "ok":
        return "(Success %s)" % coq_rval(o["v"])
    if k == "merr":
        return "(MethodError %s)" % coq_rval(o["v"])
    if k == "vs":
        return "(VarlinkError %s)" % coq_rval(o["v"])
    if k == "err" and o.get("e") == "err:json":
        return "DecodeError"
    raise ValueError("unexpected outcome %r" % (o,))


def coq_pout(o):
    k = o["k"]
    if k == "ok":
        return "(POk %s)" % coq_rval(o["v"])
    if k == "merr":
        return "(PErr %s)" % coq_rval(o["v"])
    if k == "vs":
        return "(PVarlink %s)" % coq_rval(o["v"])
    if k == "missing":
        return "PMissing"
    if k == "err" and o.get("e") == "err:json":
        return "PDecode"
    raise ValueError("unexpected proxy outcome %r" % (o,))


# ------------------------------------------------------------------------------------------------
# corpus tables: harness type name -> (Coq shape, description used by the generators)
PTYPES = {
    "unit": "P_unit", "allopt": "P_allopt", "strict": "P_strict", "value": "P_value",
    "optnested": "P_optnested", "borrowed": "P_borrowed", "listy": "P_listy",
}
# values that fit / do not fit each parameter type
P_GOOD = {
    "unit": [None],
    "allopt": [O(), O(("a", 7)), O(("b", "x"), ("a", None)), O(("a", 1), ("zz", [1]))],
    "strict": [O(("id", 3), ("name", "n")), O(("name", "q\"uote"), ("id", 0), ("more", True))],
    "value": [O(("errno", 5)), [1, "a"], "text", 17, O(), O(("b", 1), ("a", O(("y", 2), ("x", Flt("1.5")))))],
    "optnested": [None, O(("flag", True)), O(("leaf", O(("x", -4))), ("flag", False)), O(("leaf", None), ("flag", True))],
    "borrowed": [O(("name", "plain"), ("n", 255)), O(("n", 0), ("name", ""))],
    "listy": [O(("items", [])), O(("items", [1, -2, 3]))],
}
P_BAD = {
    "unit": [O(), O(("x", 1)), 5, [], "s"],
    "allopt": [O(("a", "str")), O(("a", -1)), [None, None, None], 5, O(("a", 1), ("a", 2))],
    "strict": [O(), O(("id", 3)), O(("id", "3"), ("name", "n")), O(("id", 4294967296), ("name", "n")),
               O(("id", Flt("1.5")), ("name", "n")), [3, "n"], "s"],
    "value": [],
    "optnested": [O(), O(("flag", 1)), O(("leaf", O()), ("flag", True)), [None, True]],
    "borrowed": [O(("name", "es\"c"), ("n", 1)), O(("name", "a\\b"), ("n", 1)), O(("name", "x"), ("n", 256)),
                 O(("name", "x"))],
    "listy": [O(), O(("items", [1, "a"])), O(("items", None)), O(("items", [2147483648]))],
}
# array-shaped values that some struct types accept (sequence form) are in P_BAD/P_GOOD by the
# model's verdict, not by this table: the tables only steer generation.

ETYPES = {
    "simple": ("E_simple", "org.example.E",
               [("NotFound", None), ("Busy", None), ("Invalid", [("field", "str"), ("code", "i32")])]),
    "renamed": ("E_renamed", "com.example.Ren",
                [("Plain", None),
                 ("Named", [("actualName", "bstr"), ("errorCode", "i32"), ("optionalData", "obstr")]),
                 ("Timeout", [("seconds", "u32")])]),
    "opts": ("E_opts", "org.example.Opts",
             [("Detail", [("a", "ou32"), ("b", "obool")]), ("Gone", None)]),
    "empty": ("E_empty", "org.example.Empty", []),
    "shadow": ("E_shadow", "org.varlink.service",
               [("PermissionDenied", None), ("Custom", [("why", "str")])]),
    # the options of a field spread over several #[zlink(..)] attributes (rename in a later one, next to
    # another key): the wire names are the renames
    "spread": ("E_spread", "org.example.Spread",
               [("Quota", [("maxBytes", "u32"), ("usedBytes", "u32"), ("fileName", "str")]), ("Busy", None)]),
    # fields declared with raw identifiers (r#type, r#match + rename, r#ref, r#in + rename): the names
    # here are the WIRE names the property prescribes (un-rawed); C05 only
    "raw": ("E_raw", "org.example.Raw",
            [("Typed", [("type", "str"), ("count", "u32")]), ("Matched", [("match", "i32"), ("ref", "obstr")]),
             ("Loop", None), ("Renamed", [("in", "bool")]), ("Hollow", None)]),
}
# what the derive uses as of fe0c0b5 for the un-renamed raw-identifier fields (open finding)
RAW_ASIS = {"type": "r#type", "ref": "r#ref"}
_RAW_UNRAWED = None


def raw_ident_unrawed():
    """Read off the tree under test whether the ReplyError derive un-raws field identifiers
    (work/c05-rawident-fix.diff: `unraw()` in FieldInfo::get_serialized_name)."""
    global _RAW_UNRAWED
    if _RAW_UNRAWED is None:
        path = os.path.join(REPO, "zlink-macros", "src", "reply_error.rs")
        src = open(path).read()
        m = re.search(r"fn get_serialized_name\b.*?\n    }\n", src, re.S)
        if m and "unraw()" in m.group(0):
            _RAW_UNRAWED = (True, "get_serialized_name un-raws the field identifier")
        elif m:
            _RAW_UNRAWED = (False, "get_serialized_name uses the identifier as written (r#type stays \"r#type\")")
        else:
            _RAW_UNRAWED = (False, "get_serialized_name not found in %s" % path)
    return _RAW_UNRAWED


def model_eshape(ename):
    """Coq shape of the error type as the tree under test implements it."""
    if ename == "raw" and not raw_ident_unrawed()[0]:
        return "E_raw_asis"
    return ETYPES[ename][0]


def asis_names(tree):
    """The same frame with the un-renamed raw-identifier fields spelled as the derive spells them now."""
    if isinstance(tree, Obj):
        return Obj([(k, Obj([(RAW_ASIS.get(n, n), v) for n, v in x.ms]) if k == "parameters" and isinstance(x, Obj) else x)
                    for k, x in tree.ms])
    return tree


# member names that are NOT the flags `oneway` / `more` / `upgrade`: case variants, prefixes, suffixes,
# one character off, Unicode look-alikes
NEAR_FLAG_NAMES = ["More", "MORE", "mOre", "Oneway", "ONEWAY", "oneWay", "Upgrade", "UPGRADE", "upGrade",
                   "more_", "_more", "more2", "oneway2", "one_way", "upgrad", "upgradee", "mor", "moree", "mare",
                   "onewey", "upgrode", "m\u043ere", "\uff4dore", "on\u0435way", "upgrad\u0435", "more ", " oneway"]
VS = ("vs_error_shape", "org.varlink.service",
      [("InterfaceNotFound", [("interface", "str")]), ("MethodNotFound", [("method", "str")]),
       ("MethodNotImplemented", [("method", "str")]), ("InvalidParameter", [("parameter", "str")]),
       ("PermissionDenied", None), ("ExpectedMore", None)])

MTYPES = {
    "meth": ("M_meth", [("org.example.M.Ping", None), ("org.example.M.Get", [("id", "u32")]),
                        ("org.example.M.Put", [("name", "str"), ("value", "i64"), ("note", "ostr")])]),
    "methb": ("M_methb", [("org.example.M.Put", [("name", "bstr"), ("value", "i64")]),
                          ("org.example.M.Ping", None)]),
    "meths": ("M_meths", None),
    "methn": ("M_methn", None),
    "value": ("M_value", None),
    "vsmethod": ("M_vsmethod", [("org.varlink.service.GetInfo", None),
                                ("org.varlink.service.GetInterfaceDescription", [("interface", "bstr")])]),
}
# proxy methods of the harness: (has no output, error type, parameter type)
PROXY = {
    "ping": (True, "simple", "unit"), "stop": (True, "empty", "unit"), "watch": (True, "simple", "unit"),
    "fetch": (False, "simple", "strict"), "look": (False, "opts", "allopt"),
}


def good_value(rng, ty):
    if ty == "str":
        return rng.choice(["x", "", "with space", "q\"uote", "back\\slash", "tab\there", "é中"])
    if ty == "bstr":
        return rng.choice(["x", "", "with space", "é"])
    if ty == "i32":
        return rng.choice([0, 42, -1, 2147483647, -2147483648])
    if ty == "i64":
        return rng.choice([0, -7, 9223372036854775807, -9223372036854775808])
    if ty == "u32":
        return rng.choice([0, 5, 4294967295])
    if ty == "ou32":
        return rng.choice([None, 9])
    if ty == "obool":
        return rng.choice([None, True, False])
    if ty == "bool":
        return rng.choice([True, False])
    if ty == "obstr":
        return rng.choice([None, "data"])
    if ty == "ostr":
        return rng.choice([None, "note", "n\"q"])
    raise ValueError(ty)


def bad_value(rng, ty):
    if ty in ("str", "ostr"):
        return rng.choice([5, True, [], O()])
    if ty in ("bstr", "obstr"):
        return rng.choice([5, "es\"caped", "a\\b", "nl\n"])
    if ty in ("i32",):
        return rng.choice(["1", 2147483648, -2147483649, Flt("1.5"), None])
    if ty in ("i64",):
        return rng.choice(["1", 9223372036854775808, Flt("0.5"), None, True])
    if ty in ("u32", "ou32"):
        return rng.choice([-1, 4294967296, "5", Flt("2.5")])
    if ty in ("obool", "bool"):
        return rng.choice([0, "true"])
    raise ValueError(ty)


def is_optional(ty):
    return ty.startswith("o")


def variant_params(rng, fields, kind):
    """kind: right | wrong | missing | extra | reordered | dupfield"""
    ms = [(n, good_value(rng, t)) for n, t in fields]
    if kind == "right":
        return Obj(ms)
    if kind == "reordered":
        ms = list(ms)
        rng.shuffle(ms)
        return Obj(ms)
    if kind == "wrong":
        i = rng.randrange(len(ms))
        ms[i] = (ms[i][0], bad_value(rng, fields[i][1]))
        return Obj(ms)
    if kind == "missing":
        i = rng.randrange(len(ms))
        del ms[i]
        return Obj(ms)
    if kind == "extra":
        ms.insert(rng.randrange(len(ms) + 1), ("unknownField", rng.choice([1, None, O(("a", 1)), [1]])))
        return Obj(ms)
    if kind == "dupfield":
        i = rng.randrange(len(ms))
        ms.insert(rng.randrange(len(ms) + 1), ms[i])
        return Obj(ms)
    raise ValueError(kind)


def permutations_of(ms, rng, limit):
    """All orders of the member list when there are at most `limit` of them, else a sample."""
    n = len(ms)
    if n <= 1:
        return [list(ms)]
    total = 1
    for i in range(2, n + 1):
        total *= i
    if total <= limit:
        return [list(p) for p in itertools.permutations(ms)]
    seen, out = set(), []
    for _ in range(limit * 3):
        p = list(ms)
        rng.shuffle(p)
        key = tuple(id(x) for x in p)
        if key not in seen:
            seen.add(key)
            out.append(p)
        if len(out) >= limit:
            break
    return out


# ------------------------------------------------------------------------------------------------
# reply frames
UNDECLARED = ["io.systemd.System", "org.example.E.Nope", "org.example.E", "", "NotFound"]


def error_parts(rng, ename):
    """[(class, error value, parameters part or ABSENT marker list)] for the given error type."""
    _, iface, variants = ETYPES[ename]
    parts = []
    for decl_iface, decl in ((iface, variants), (VS[1], VS[2])):
        cls = "declared" if decl is variants else "standard"
        for vn, fields in decl:
            name = "%s.%s" % (decl_iface, vn)
            if fields is None:
                parts.append((cls + "_unit", name, "noparams"))
            else:
                for kind in ("right", "wrong", "missing", "extra", "reordered", "dupfield"):
                    if kind == "missing" and False:
                        continue
                    parts.append(("%s_%s" % (cls, kind), name, variant_params(rng, fields, kind)))
                parts.append((cls + "_noparams", name, "noparams"))
    for u in UNDECLARED:
        parts.append(("undeclared", u, "any"))
    for bad in (None, 5, O(), [], True):
        parts.append(("error_not_a_name", bad, "any"))
    # serde's externally tagged spelling of a unit variant as the tag value
    if variants:
        vn = "%s.%s" % (iface, variants[0][0])
        parts.append(("error_map_form", O((vn, None)), "any"))
        parts.append(("error_map_form", O((vn, O())), "any"))
        parts.append(("error_map_form", O((vn, None), ("x", None)), "any"))
    return parts


ABSENT = object()


def param_spellings(rng, pname):
    """(class, value | ABSENT) candidates for the `parameters` member."""
    out = [("absent", ABSENT), ("null", None), ("empty_object", O())]
    for v in P_GOOD[pname]:
        out.append(("fits_P", v))
    for v in P_BAD[pname]:
        out.append(("not_P", v))
    out += [("array", [1, "s"]), ("array", []), ("scalar", 5), ("scalar", "str"), ("scalar", False)]
    return out


CONTINUES = [("absent", ABSENT), ("true", True), ("false", False), ("null", None), ("bad", 1), ("bad", "yes")]
EXTRAS = [[], [("x-unknown", 1)], [("zz", O(("error", "nested"))), ("aa", None)]]


def build(members):
    return Obj([(k, v) for k, v in members if v is not ABSENT])


def reply_frames(rng, pname, ename, quick):
    """Generate (tags, frame tree) for one (P, E) pair: the product of the classes, sampled."""
    eparts = [("no_error", ABSENT, "any")] * 3 + error_parts(rng, ename)
    pspell = param_spellings(rng, pname)
    frames = []
    for ecls, ev, eparams in eparts:
        if eparams == "noparams":
            plist = [("absent", ABSENT), ("null", None), ("empty_object", O()),
                     ("object", O(("x", 1))), ("array", []), ("scalar", 5)]
        elif eparams == "any":
            plist = pspell
        else:
            plist = [("for_variant", eparams)]
        for pcls, pv in plist:
            for ccls, cv in CONTINUES:
                for xi, extra in enumerate(EXTRAS):
                    ms = [("error", ev), ("parameters", pv), ("continues", cv)] + extra
                    frames.append(({"error": ecls, "parameters": pcls, "continues": ccls, "extra": xi,
                                    "shape": "object"}, [m for m in ms if m[1] is not ABSENT]))
    return frames


def dup_variants(rng, ms):
    """Frames with one member duplicated (same or different value), at every position pair."""
    out = []
    for i, (k, v) in enumerate(ms):
        for other in ([v] + [x for x in (None, "b", O(), True) if x != v][:2]):
            for pos in range(len(ms) + 1):
                dup = list(ms)
                dup.insert(pos, (k, other))
                out.append(dup)
    return out


def array_frames(rng, pname, ename):
    """Array-shaped frames (malformed stream: compared with the model, no claim)."""
    _, iface, variants = ETYPES[ename]
    out = [[], [None], [None, True], [None, None], [None, True, 1], [O(), False], ["x", None]]
    for v in P_GOOD[pname][:2] + P_BAD[pname][:1]:
        out.append([v, None])
        out.append([v, True])
    for i, (vn, fields) in enumerate(variants):
        name = "%s.%s" % (iface, vn)
        content = None if fields is None else variant_params(rng, fields, "right")
        out += [[name, content], [i, content], [name], [name, content, 1], [name, O()], [i, None], [-1, None],
                [len(variants), None]]
    out += [["org.varlink.service.PermissionDenied", None], [4, None], [0, O(("interface", "i"))],
            ["org.varlink.service.MethodNotFound", O(("method", "m"))], ["org.varlink.service.MethodNotFound", ["m"]]]
    return out


_OBJECT_ONLY = None


def receive_reply_object_only():
    """Read off the tree under test whether receive_reply hands the message to serde through a
    deserializer that only accepts a JSON object (work/c04-array-fix.diff: `deserialize_any` of the
    wrapper calls `deserialize_map`).  Returns (bool, what was matched)."""
    global _OBJECT_ONLY
    if _OBJECT_ONLY is None:
        path = os.path.join(REPO, "zlink-core", "src", "connection", "read_connection.rs")
        src = open(path).read()
        m = re.search(r"fn receive_reply\b.*?\n    }\n", src, re.S)
        body = m.group(0) if m else ""
        wrapped = re.search(r"read_message::<\s*(\w+)<\s*ReplyMsg<", body)
        if not m:
            _OBJECT_ONLY = (False, "receive_reply not found in %s" % path)
        elif wrapped and re.search(r"fn deserialize_any.*?\.deserialize_map\(", src, re.S):
            _OBJECT_ONLY = (True, "receive_reply reads %s<ReplyMsg<..>>; a deserialize_any forwarding to deserialize_map is present"
                            % wrapped.group(1))
        else:
            _OBJECT_ONLY = (False, "receive_reply reads ReplyMsg<..> directly (serde's sequence forms are accepted)")
    return _OBJECT_ONLY


def coq_bool(b):
    return "true" if b else "false"


def render_rcase(c, r):
    def enc(x):
        return None if x is None else jparse(x["enc"])

    def val(x):
        return None if x is None else x["v"]
    return ("{| rc_object_only := %s; rc_e := %s; rc_espec := %s; rc_p := %s; rc_frame := %s; rc_recv := %s; rc_call := %s; "
            "rc_dvs := %s; rc_derr := %s; rc_drep := %s; rc_evs := %s; rc_eerr := %s; rc_erep := %s |}") % (
        coq_bool(receive_reply_object_only()[0]), model_eshape(c["e"]), ETYPES[c["e"]][0], PTYPES[c["p"]],
        coq_jval(c["tree"]),
        coq_outcome(r["recv"]), coq_outcome(r["call"]),
        coq_opt(val(r["d_vs"]), coq_rval), coq_opt(val(r["d_err"]), coq_rval), coq_opt(val(r["d_rep"]), coq_rval),
        coq_opt(enc(r["d_vs"]), coq_jval), coq_opt(enc(r["d_err"]), coq_jval), coq_opt(enc(r["d_rep"]), coq_jval))


def render_ccase(c, r):
    dec = r.get("dec")
    return "{| cc_m := %s; cc_frame := %s; cc_dec := %s; cc_recv := %s; cc_enc := %s |}" % (
        MTYPES[c["m"]][0], coq_jval(c["tree"]),
        coq_opt(None if dec is None else dec["v"], coq_rval),
        coq_opt(None if r.get("recv") is None else r["recv"]["v"], coq_rval),
        coq_opt(None if not r.get("enc") else jparse(r["enc"]), coq_jval))


def render_pcase(c, r):
    unit, en, pn = PROXY[c["meth"]]
    return "{| pc_object_only := %s; pc_unit := %s; pc_e := %s; pc_p := %s; pc_frame := %s; pc_res := %s |}" % (
        coq_bool(receive_reply_object_only()[0]), "true" if unit else "false", ETYPES[en][0], PTYPES[pn], coq_jval(c["tree"]), coq_pout(r["res"]))


FLAGC = {"oneway": "Oneway", "more": "More", "upgrade": "Upgrade"}


def render_bccase(c, r):
    built = bool(r.get("built"))
    return ("{| bc_m := %s; bc_frame := %s; bc_ops := [%s]; bc_built := %s; bc_meth := %s; bc_get := [%s]; "
            "bc_enc := %s |}") % (
        MTYPES[c["m"]][0], coq_jval(c["tree"]),
        "; ".join("(%s, %s)" % (FLAGC[f], coq_bool(b)) for f, b in c["ops"]), coq_bool(built),
        coq_opt(r.get("meth") if built else None, coq_rval),
        "; ".join(coq_bool(b) for b in (r.get("get") or [])),
        coq_opt(jparse(r["enc"]) if built and r.get("enc") else None, coq_jval))


def render_brcase(c, r):
    built = bool(r.get("built"))

    def ob(x):
        return "None" if x is None else "(Some %s)" % coq_bool(x)
    return ("{| br_p := %s; br_frame := %s; br_ops := [%s]; br_built := %s; br_params := %s; br_cont := %s; "
            "br_enc := %s |}") % (
        PTYPES[c["p"]], "None" if c["ctor"] == "new_none" else "(Some %s)" % coq_jval(c["tree"]),
        "; ".join(ob(x) for x in c["ops"]), coq_bool(built),
        coq_opt(r.get("params") if built else None, coq_rval), coq_opt(r.get("continues") if built else None, coq_rval),
        coq_opt(jparse(r["enc"]) if built and r.get("enc") else None, coq_jval))


def harness_results(ck, cases):
    """Run the envelope harness; harness output is parsed keeping member order inside `enc` texts
    (they stay strings) - `j` payloads come back as plain dicts (sorted unique = BTreeMap view)."""
    wire = [{k: v for k, v in c.items() if k in ("id", "op", "p", "e", "m", "meth", "frame", "ctor", "ops")} for c in cases]
    return ck.harness_run("envelope", wire)


def members_key(tree):
    """Order-insensitive identity of an object frame (for grouping permutations)."""
    if isinstance(tree, Obj):
        return tuple(sorted((k, jtext(v)) for k, v in tree.ms))
    return None


def no_dups(tree):
    return isinstance(tree, Obj) and len(set(tree.keys())) == len(tree.ms)


def prove_with_decls(ck, targets, propfile):
    """Regenerate coq/gen/Decls.v from this run's tree (translate/decls.py: the declarations of Reply,
    varlink_service::Method and varlink_service::Error), then the standard proof step; the pinned
    file contains the tie lemmas (Shapes/DeclTie.v). A translator failure is a broken obligation."""
    rc, out = sh([sys.executable, os.path.join(VERIF, "translate", "decls.py")])
    ck.samples.append("translated: " + out.strip()[:600])
    if rc != 0:
        ck.proof_ok, ck.broken, ck.proof_log = False, "translator decls.py: " + out.strip()[-300:], out
        ck.coq_build(list(targets))
        return False
    return ck.prove(["gen/Decls.v", "Shapes/DeclTie.v"] + list(targets), propfile)
