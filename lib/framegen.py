"""Generators for NUL-terminated frame streams, chunkings and transport scripts."""
import json

STEP = 256


def jb(obj):
    return json.dumps(obj, separators=(",", ":")).encode()


WS = [b" ", b"\n", b"\t", b"\r", b"  ", b" \n "]

CALL_TARGETS = ["call_strict", "call_borrowed", "call_lenient", "call_value"]
REPLY_TARGETS = ["reply_typed", "reply_value"]
TARGETS = CALL_TARGETS + REPLY_TARGETS
# Connection::call_method (send_call + receive_reply): same frames as the reply targets
CALLM_TARGETS = ["callm_typed", "callm_value"]


def name_of(rng, n):
    alphabet = "abcdefghijklmnopqrstuvwxyzABCXYZ0123456789-_ "
    return "".join(rng.choice(alphabet) for _ in range(n))


def frame(rng, target, kind=None, size=None):
    """One frame (bytes without the terminator) and its kind label. `size` pads a string member so
    that the frame has exactly that many bytes (when feasible)."""
    is_call = target.startswith("call_")
    if kind is None:
        kind = rng.choices(
            ["valid", "valid_big", "wrong_shape", "malformed", "padded", "garbage", "escaped", "flags", "near_blank",
             "bad_utf8"],
            [30, 12, 12, 10, 14, 6, 8, 8, 5, 5])[0]
    pad = rng.randrange(0, 40) if size is None else None

    def fit(build):
        # build(k) -> bytes with a k-char filler; choose k so that len == size
        if size is None:
            return build(pad)
        base = len(build(0))
        if size < base:
            return build(0)
        return build(size - base)

    if kind in ("valid", "valid_big", "flags", "padded", "escaped"):
        if kind == "valid_big" and size is None:
            size_local = rng.choice([STEP - 2, STEP - 1, STEP, STEP + 1, 2 * STEP - 1, 2 * STEP,
                                     2 * STEP + 1, 3 * STEP, rng.randrange(200, 900)])
        else:
            size_local = size
        esc = '\\"\\n\\u00e9' if kind == "escaped" else ""
        if is_call:
            v = rng.randrange(0, 3)
            if v == 0 and size_local is None and kind != "escaped":
                o = {"method": "org.example.Get", "parameters": {"id": rng.randrange(0, 1 << 20)}}
                def build(k, o=o):
                    return jb(o)
            elif v == 1 and size_local is None and kind != "escaped":
                o = {"method": "org.example.Ping"}
                def build(k, o=o):
                    return jb(o)
            else:
                val = rng.randrange(-1000, 1000)
                fill = name_of(rng, 2000)
                def build(k, val=val, fill=fill):
                    s = jb({"method": "org.example.Put", "parameters": {"name": "@@", "value": val}})
                    return s.replace(b"@@", ((fill * (k // max(1, len(fill)) + 1))[:k] + esc).encode())
            if kind == "flags":
                fl = rng.choice([{"oneway": True}, {"more": True}, {"upgrade": True},
                                 {"oneway": False, "more": True}])
                inner = build
                def build(k, inner=inner, fl=fl):
                    s = inner(k)
                    return s[:-1] + b"," + jb(fl)[1:]
        else:
            v = rng.randrange(0, 5)
            if v == 0 and size_local is None and kind != "escaped":
                o = {"parameters": {"id": rng.randrange(0, 1 << 20)}}
                if rng.random() < 0.4:
                    o["continues"] = rng.random() < 0.5
                def build(k, o=o):
                    return jb(o)
            elif v == 1 and size_local is None and kind != "escaped":
                o = rng.choice([
                    {"error": "org.example.NotFound", "parameters": {"id": rng.randrange(0, 99)}},
                    {"error": "org.example.Busy"},
                    {"error": "org.varlink.service.MethodNotFound", "parameters": {"method": "a.B"}},
                    {"error": "org.varlink.service.PermissionDenied"},
                ])
                def build(k, o=o):
                    return jb(o)
            else:
                idv = rng.randrange(0, 1000)
                fill = name_of(rng, 2000)
                def build(k, idv=idv, fill=fill):
                    s = jb({"parameters": {"id": idv, "note": "@@"}})
                    return s.replace(b"@@", ((fill * (k // max(1, len(fill)) + 1))[:k] + esc).encode())
        if kind == "padded":
            pre, post = rng.choice(WS + [b""]), rng.choice(WS)
            inner2 = build
            def build(k, inner2=inner2, pre=pre, post=post):
                return pre + inner2(k) + post
        if size_local is not None:
            base = len(build(0))
            return (build(max(0, size_local - base)), kind)
        return (build(pad), kind)
    if kind == "wrong_shape":
        if is_call:
            o = rng.choice([
                {"method": "org.example.Get", "parameters": {"id": "x"}},
                {"method": "org.example.Nope", "parameters": {}},
                {"method": "org.example.Get"},
                {"parameters": {"id": 1}},
                [1, 2, 3],
                {"method": "org.example.Put", "parameters": {"name": 5, "value": "v"}},
            ])
        else:
            o = rng.choice([
                {"parameters": {"id": "x"}},
                {"parameters": {"idd": 2}},
                {"error": "org.example.NotFound", "parameters": {"id": "s"}},
                {"error": 5},
                "str", 17,
                {"parameters": [1]},
            ])
        return (jb(o), kind)
    if kind == "malformed":
        s = rng.choice([b'{"method":', b'{"parameters":{"id":1}', b'{"parameters":{"id":1}}}', b'{]',
                        b'{"a":1}{"b":2}', b'nul', b'{"parameters":{"id":1}} x', b'{"method":"org.example.Ping"}x',
                        b'"\\x"', b'{"parameters":{"id":01}}', b'   ', b'\t'])
        return (s, kind)
    if kind == "near_blank":
        # a valid document next to bytes that look like white space but are not JSON white space
        # (form feed, vertical tab, NBSP, line separator, BOM, DEL, unit separator): not a JSON text
        f, _ = frame(rng, target, kind="valid")
        nb = [b"\x0c", b"\x0b", b"\xc2\xa0", b"\xe2\x80\xa8", b"\xef\xbb\xbf", b"\x7f", b"\x1f", b"\xa0", b"\x85"]
        pre = rng.choice(nb) if rng.random() < 0.6 else b""
        post = rng.choice(nb) if (not pre or rng.random() < 0.5) else b""
        return (pre + f + post, kind)
    if kind == "bad_utf8":
        # a well-formed document whose only fault is a string that is not UTF-8 (in a member the target
        # decodes, in a member name, or in a member the target ignores): not a JSON text; whatever the
        # decoder of the isolated frame says is the expected result
        bad = rng.choice([b"\xff", b"\xc3(", b"\xed\xa0\x80", b"\xe2\x82", b"\xf8\x88\x80\x80\x80", b"\xc0\xaf",
                          b"a\x80b", b"\xf4\x90\x80\x80"])
        where = rng.randrange(0, 3)
        if is_call:
            s = jb({"method": "org.example.Put", "parameters": {"name": "@@", "value": rng.randrange(0, 99)}})
        else:
            s = jb({"parameters": {"id": rng.randrange(0, 99), "note": "@@"}})
        if where == 0:
            s = s.replace(b"@@", b"ok" + bad + b"k")
        elif where == 1:
            s = s.replace(b"@@", b"ok")[:-1] + b',"x' + bad + b'":1}'
        else:
            s = s.replace(b"@@", b"ok")[:-1] + b',"extra":"' + bad + b'"}'
        return (s, kind)
    if kind == "garbage":
        n = rng.randrange(1, 24)
        return (bytes(rng.randrange(1, 256) for _ in range(n)), kind)
    raise ValueError(kind)


def wire(frames):
    return b"".join(f + b"\0" for f in frames)


def chunks_from_cuts(stream, cuts):
    cuts = sorted(set(c for c in cuts if 0 < c < len(stream)))
    out, prev = [], 0
    for c in cuts + [len(stream)]:
        out.append(stream[prev:c])
        prev = c
    return [c for c in out if c]


def random_cuts(rng, n, k):
    if n <= 1:
        return []
    return sorted(set(rng.randrange(1, n) for _ in range(k)))


def events_of(rng, chunks, pend_prob=0.3, eof=True):
    ev = []
    for c in chunks:
        while rng.random() < pend_prob:
            ev.append(["p"])
        ev.append(["d", c.hex()])
    while rng.random() < pend_prob:
        ev.append(["p"])
    if eof:
        ev.append(["e"])
    return ev


def coq_events(ev):
    out = []
    for e in ev:
        if e[0] == "d":
            out.append("Data [" + ";".join(str(x) for x in bytes.fromhex(e[1])) + "]%N")
        elif e[0] == "p":
            out.append("Pend")
        elif e[0] == "e":
            out.append("Eof")
        elif e[0] == "f":
            out.append("Fail")
    return "[" + "; ".join(out) + "]"
