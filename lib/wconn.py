"""Shared pieces of the send-side checks (C02, C17 outbound)."""
from vlib import *

WHEADER = "From ZV Require Import Common.Exec Framing.WriteConn Framing.WriteConnExec.\nOpen Scope N_scope.\n"
WRES = {"ok": 0, "err:overflow": 2, "err:json": 3, "err:io": 4}


def render_wcase(c, r, step, limit):
    ops = []
    for op, orc in zip(c["ops"], r["oracles"]):
        if op[0] == "flush":
            ops.append("Flush")
            continue
        if op[0] == "rejoin":       # no counterpart in the model: split/join must not touch the write state
            continue
        m = "Good %s" % coq_bytes(bytes.fromhex(orc["good"])) if "good" in orc else "BadKey %d%%nat" % orc["bad"]
        ops.append("%s (%s)" % ("Enqueue" if op[0] in ("enq", "cenq") else "Send", m))
    kept = [o for op, o in zip(c["ops"], r["ops"]) if op[0] != "rejoin"]
    expect = ["[%d;%d;%d]" % (WRES.get(o["res"], 99), o["st"][0], o["st"][1]) for o in kept]
    before = [str(o["before"][1]) for o in kept]
    script = ["true" if b else "false" for b in c.get("wscript", [])]
    return ("{| wc_step := %d; wc_limit := %d; wc_K := %d; wc_ops := %s; wc_script := %s; wc_accept := %s; "
            "wc_expect := %s; wc_before := %s; wc_writes := %s |}") % (
        step, limit, limit // step, coq_list(ops), coq_list(script),
        "true" if all(c.get("wscript", [])) else "false",
        coq_list(expect), "[" + ";".join(before) + "]",
        coq_list([coq_bytes(bytes.fromhex(w)) for w in r["writes"]]))


def run_wcases(ck, cases, step, limit, describe, per_shard=60):
    """Harness + Coq evaluation + classification for write-side cases. Returns (items, results)."""
    ok, log = ck.harness_build(["wconn"])
    if not ok:
        ck.violation("harness does not build against /repo", {"log": log[-3000:]}, tag="build", no_input=True)
        ck.finish()
    results = ck.harness_run("wconn", cases)
    ck.ran_correspondence = True
    items = []
    for c, r in zip(cases, results):
        if r.get("panic") or r.get("crash"):
            ck.violation("send/enqueue panicked or crashed", {"case": c, "impl": r}, tag="panic%d" % c["id"])
            continue
        if r["limits"] != [step, limit]:
            ck.violation("compiled limits %s differ from the translated constants (%d, %d)" % (r["limits"], step, limit),
                         {"impl": r["limits"], "translated": [step, limit],
                          "correspondence": "translate/consts.py vs zlink_core::verif::LIMITS"},
                         tag="limits", no_input=True)
            break
        items.append((c, r))
    try:
        bad = ck.coq_eval("wcases", WHEADER, items, lambda it: render_wcase(it[0], it[1], step, limit), per_shard=per_shard)
    except RuntimeError as e:
        ck.violation("model evaluation failed: " + str(e)[:300], {"log": str(e)}, tag="eval", no_input=True)
        bad = {}
    for idx in sorted(bad)[:5]:
        c, r = items[idx]
        code = bad[idx]
        term = render_wcase(c, r, step, limit)
        model = ck.coq_show(WHEADER, "(let m := wmodel (%s) in (map enc_wop (fst m), map (@length byte) (snd m)))" % term)
        slim = dict(r)
        slim["writes"] = [w[:200] + ("..." if len(w) > 200 else "") for w in r["writes"]]
        slim["oracles"] = ["..."]
        if code & 2:
            ck.violation("transport writes are not 'one document + one NUL per accepted message, one write per flush' "
                         "for history %s" % describe(c), {"case": c, "impl": slim, "model": model}, tag="w%d" % c["id"])
        elif code & 4:
            ck.violation("a message was accepted/refused against the rule 'accepted iff document + NUL fit under the "
                         "limit' in history %s" % describe(c), {"case": c, "impl": slim, "model": model}, tag="a%d" % c["id"])
        else:
            ck.violation("implementation differs from the WriteConnection model (writes agree with the spec)",
                         {"case": c, "impl": slim, "model": model,
                          "correspondence": "Framing/WriteConn.v wrun vs Connection enqueue/send/flush"},
                         tag="m%d" % c["id"], no_input=True)
    return items, results
