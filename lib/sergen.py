"""Case generators and Coq rendering for the serializer property (C03).

A tree is the compact JSON encoding that harness/src/bin/ser.rs parses (one array per serde
Serializer call, strings hex-encoded UTF-8):
  ["b",bool] ["i",kind,"decimal"] ["f32",bits] ["f64","bits"] ["c",codepoint] ["s",hex] ["y",hex]
  ["none"] ["some",v] ["unit"] ["us",name] ["uv",name,idx,variant] ["ns",name,v]
  ["nv",name,idx,variant,v] ["seq",len|null,[v..]] ["tup",len,[v..]] ["ts",name,len,[v..]]
  ["tv",name,idx,variant,len,[v..]] ["map",len|null,[[k,v]..]] ["st",name,len,[[field,v]..]]
  ["sv",name,idx,variant,len,[[field,v]..]]
  ["cs",[fragment..]]            collect_str of a Display that writes these fragments
  ["hr",v_human,v_compact]       a Serialize impl branching on is_human_readable()
  ["net",kind,octets_hex,port]   std::net: kind v4 v6 ip4 ip6 sa4 sa6
  ["json",j]                     a serde_json::Value, j = null | ["jb",bool] | ["ju","u64"] |
                                 ["ji","negative i64"] | ["jf","f64 bits (finite)"] | ["js",hex] |
                                 ["ja",[j..]] | ["jo",[[keyhex,j]..]] (members inserted in this order)
"""
import struct

IKINDS = {"i8": (-2**7, 2**7 - 1), "i16": (-2**15, 2**15 - 1), "i32": (-2**31, 2**31 - 1),
          "i64": (-2**63, 2**63 - 1), "i128": (-2**127, 2**127 - 1),
          "u8": (0, 2**8 - 1), "u16": (0, 2**16 - 1), "u32": (0, 2**32 - 1),
          "u64": (0, 2**64 - 1), "u128": (0, 2**128 - 1)}

SPECIAL_CHARS = [0, 1, 7, 8, 9, 10, 11, 12, 13, 14, 27, 31, 32, 33, 34, 35, 47, 91, 92, 93, 127, 128,
                 0xA0, 0xE9, 0x7FF, 0x800, 0x2028, 0x2029, 0xD7FF, 0xE000, 0xFEFF, 0xFFFD, 0xFFFF,
                 0x10000, 0x1F600, 0x10FFFF]

F32_SPECIAL = [0x00000000, 0x80000000, 0x3F800000, 0xBF800000, 0x7F800000, 0xFF800000, 0x7FC00000,
               0xFFC00000, 0x7F800001, 0x7FFFFFFF, 0x00000001, 0x007FFFFF, 0x00800000, 0x7F7FFFFF,
               0x3DCCCCCD, 0x4B800000, 0x5A0E1BCA, 0x501502F9, 0x322BCC77, 0x3A83126F, 0x461C4000]
F64_SPECIAL = [0x0, 0x8000000000000000, 0x3FF0000000000000, 0x7FF0000000000000, 0xFFF0000000000000,
               0x7FF8000000000000, 0xFFF8000000000000, 0x7FF0000000000001, 0x1, 0x000FFFFFFFFFFFFF,
               0x0010000000000000, 0x7FEFFFFFFFFFFFFF, 0x3FB999999999999A, 0x4341C37937E08000,
               0x4340000000000000, 0x444B1AE4D6E2EF50, 0x3EB0C6F7A0B5ED8D, 0x400921FB54442D18,
               0x43ABC16D674EC800, 0x3F50624DD2F1A9FC, 0xC08F400000000000]


def hx(s):
    return s.encode("utf-8").hex() if isinstance(s, str) else bytes(s).hex()


class Gen:
    def __init__(self, rng):
        self.rng = rng
        self.stats = {}

    def count(self, k):
        self.stats[k] = self.stats.get(k, 0) + 1

    # ------------------------------------------------------------ leaves
    def char(self):
        r = self.rng
        x = r.random()
        if x < 0.35:
            return r.choice(SPECIAL_CHARS)
        if x < 0.6:
            return r.randrange(32, 127)
        if x < 0.7:
            return r.randrange(0, 32)
        while True:
            c = r.choice([r.randrange(128, 0x800), r.randrange(0x800, 0x10000), r.randrange(0x10000, 0x110000)])
            if not 0xD800 <= c < 0xE000:
                return c

    def string(self, maxlen=12):
        r = self.rng
        x = r.random()
        if x < 0.08:
            return ""
        if x < 0.45:
            n = r.randrange(1, maxlen)
            return "".join(r.choice("abcxyzXYZ019_.- ") for _ in range(n))
        n = r.randrange(1, maxlen)
        return "".join(chr(self.char()) for _ in range(n))

    def name(self):
        r = self.rng
        if r.random() < 0.8:
            return r.choice(["a", "b", "id", "name", "value", "Kind", "parameters", "x_y", "org.example.Type", ""])
        return self.string(8)

    def integer(self, kind=None):
        r = self.rng
        kind = kind or r.choice(list(IKINDS))
        lo, hi = IKINDS[kind]
        x = r.random()
        if x < 0.3:
            z = r.choice([lo, hi, 0, 1, lo + 1, hi - 1, min(hi, 9), min(hi, 10), min(hi, 99), min(hi, 100)] +
                         ([-1, max(lo, -10), max(lo, -9)] if lo < 0 else []))
        elif x < 0.6:
            z = r.randrange(max(lo, -1000), min(hi, 1000) + 1)
        else:
            bits = r.randrange(1, hi.bit_length() + 1)
            z = r.randrange(0, 2**bits)
            if lo < 0 and r.random() < 0.5:
                z = -z - 1
            z = max(lo, min(hi, z))
        self.count("int:" + kind)
        return ["i", kind, str(z)]

    def f32(self):
        r = self.rng
        x = r.random()
        if x < 0.35:
            bits = r.choice(F32_SPECIAL)
        elif x < 0.6:
            bits = struct.unpack("<I", struct.pack("<f", r.choice([1, -1]) * r.randrange(0, 100000) / r.choice([1, 10, 100, 1000])))[0]
        else:
            bits = r.getrandbits(32)
        self.count("f32:" + ("nonfinite" if nonfinite32(bits) else "finite"))
        return ["f32", bits]

    def f64(self):
        r = self.rng
        x = r.random()
        if x < 0.35:
            bits = r.choice(F64_SPECIAL)
        elif x < 0.6:
            bits = struct.unpack("<Q", struct.pack("<d", r.choice([1, -1]) * r.randrange(0, 10**9) / r.choice([1, 10, 1000, 10**7])))[0]
        else:
            bits = r.getrandbits(64)
        self.count("f64:" + ("nonfinite" if nonfinite64(bits) else "finite"))
        return ["f64", str(bits)]

    def leaf(self):
        r = self.rng
        k = r.choice(["b", "i", "i", "f32", "f64", "c", "s", "s", "s", "y", "none", "unit", "us", "uv",
                      "cs", "cs", "net", "json", "json"])
        self.count("leaf:" + k)
        if k == "json":
            return ["json", self.json_value(r.choice([0, 1, 2, 3]))]
        if k == "cs":
            return self.collect()
        if k == "net":
            return self.net()
        if k == "b":
            return ["b", r.random() < 0.5]
        if k == "i":
            return self.integer()
        if k == "f32":
            return self.f32()
        if k == "f64":
            return self.f64()
        if k == "c":
            return ["c", self.char()]
        if k == "s":
            return ["s", hx(self.string())]
        if k == "y":
            return ["y", bytes(r.randrange(256) for _ in range(r.choice([0, 1, 2, 3, 5, 9]))).hex()]
        if k == "us":
            return ["us", hx(self.name())]
        if k == "uv":
            return ["uv", hx(self.name()), r.randrange(0, 5), hx(self.string(8))]
        return [k]

    def collect(self):
        """a Display value handed over in fragments (empty ones, escapes and multi-byte included)"""
        r = self.rng
        n = r.choice([0, 1, 1, 2, 2, 3, 4, 6])
        frags = []
        for _ in range(n):
            x = r.random()
            if x < 0.1:
                frags.append("")
            elif x < 0.5:
                frags.append(r.choice(["-", ":", ".", "T", "/", "2024", "01", "v", "+"]) if r.random() < 0.5
                             else self.string(6))
            else:
                frags.append(self.string(r.choice([2, 4, 10, 30])))
        return ["cs", [hx(f) for f in frags]]

    def json_number(self):
        r = self.rng
        k = r.choice(["ju", "ju", "ji", "jf", "jf"])
        self.count("json:" + k)
        if k == "ju":
            return ["ju", str(r.choice([0, 1, 10, 255, 2**32, 2**53, 2**63 - 1, 2**63, 2**64 - 1,
                                        r.randrange(0, 1000), r.getrandbits(r.randrange(1, 65))]))]
        if k == "ji":
            return ["ji", str(-r.choice([1, 10, 128, 2**31, 2**53, 2**63, r.randrange(1, 1000),
                                         1 + r.getrandbits(r.randrange(1, 64))]))]
        while True:
            bits = r.choice([r.choice(F64_SPECIAL), r.getrandbits(64),
                             struct.unpack("<Q", struct.pack("<d", r.randrange(-10**6, 10**6) / r.choice([1, 8, 10, 1000])))[0]])
            if not nonfinite64(bits):
                return ["jf", str(bits)]

    def json_value(self, depth):
        """a serde_json::Value (free-form varlink parameters)"""
        r = self.rng
        k = r.choice(["n", "n", "n", "null", "jb", "js", "ja", "jo", "jo"] if depth > 0 else
                     ["n", "n", "n", "null", "jb", "js"])
        if k == "n":
            return self.json_number()
        self.count("json:" + k)
        if k == "null":
            return None
        if k == "jb":
            return ["jb", r.random() < 0.5]
        if k == "js":
            return ["js", hx(self.string())]
        n = r.choice([0, 1, 2, 3, 4])
        if k == "ja":
            return ["ja", [self.json_value(depth - 1) for _ in range(n)]]
        return ["jo", [[hx(r.choice(["a", "b", "id", "name", "a"]) if r.random() < 0.6 else self.string(6)),
                        self.json_value(depth - 1)] for _ in range(n)]]

    def net(self):
        r = self.rng
        kind = r.choice(["v4", "v6", "ip4", "ip6", "sa4", "sa6"])
        if kind.endswith("4"):
            o = r.choice([bytes([192, 168, 1, 20]), bytes([0, 0, 0, 0]), bytes([255, 255, 255, 255]),
                          bytes(r.randrange(256) for _ in range(4))])
        else:
            o = r.choice([bytes(16), bytes(15) + b"\x01", bytes(10) + b"\xff\xff\xc0\xa8\x01\x14",
                          bytes(r.randrange(256) for _ in range(16)),
                          bytes(r.choice([0, 0, r.randrange(256)]) for _ in range(16))])
        port = r.choice([0, 80, 65535, r.randrange(65536)]) if kind.startswith("sa") else 0
        return ["net", kind, o.hex(), port]

    # ------------------------------------------------------------ keys
    def good_key(self, depth=0):
        r = self.rng
        k = r.choice(["s", "s", "s", "c", "i", "i", "uv", "ns", "cs", "cs", "net", "hr", "json"])
        self.count("key:" + k)
        if k == "json":
            return ["json", r.choice([["js", hx(self.string())], ["ju", str(r.randrange(0, 2**64))],
                                      ["ji", str(-r.randrange(1, 2**63))]])]
        if k == "cs":
            return self.collect()
        if k == "net":
            return self.net()
        if k == "hr":
            return ["hr", self.good_key(depth + 1) if depth < 2 else ["s", hx("h")],
                    r.choice([["unit"], ["tup", 1, [["i", "u8", "1"]]], ["s", hx("c")]])]
        if k == "s":
            return ["s", hx(self.string())]
        if k == "c":
            return ["c", self.char()]
        if k == "i":
            return self.integer()
        if k == "uv":
            return ["uv", hx(self.name()), r.randrange(0, 5), hx(self.string(8))]
        if depth > 2:
            return ["s", hx(self.string())]
        return ["ns", hx(self.name()), self.good_key(depth + 1)]

    def bad_key(self):
        r = self.rng
        k = r.choice(["b", "f32", "f64", "y", "none", "unit", "us", "some", "nv", "seq", "tup", "ts",
                      "tv", "map", "st", "sv", "ns-bad", "hr-bad", "json-bad"])
        self.count("badkey:" + k)
        if k == "json-bad":
            return ["json", r.choice([None, ["jb", True], ["jf", str(0x3FF8000000000000)], ["ja", []],
                                      ["jo", [[hx("a"), ["ju", "1"]]]]])]
        if k == "hr-bad":
            return ["hr", ["unit"], ["s", hx("fine-if-compact")]]
        if k == "b":
            return ["b", r.random() < 0.5]
        if k == "f32":
            return self.f32()
        if k == "f64":
            return self.f64()
        if k == "y":
            return ["y", "6162"]
        if k == "us":
            return ["us", hx("U")]
        if k == "some":
            return ["some", self.good_key()]
        if k == "nv":
            return ["nv", hx("E"), 0, hx("V"), self.good_key()]
        if k == "seq":
            return ["seq", r.choice([None, 0, 1]), [["s", hx("k")]] if r.random() < 0.7 else []]
        if k == "tup":
            return ["tup", 1, [["s", hx("k")]]]
        if k == "ts":
            return ["ts", hx("T"), 1, [["s", hx("k")]]]
        if k == "tv":
            return ["tv", hx("E"), 1, hx("V"), 1, [["i", "u8", "1"]]]
        if k == "map":
            return ["map", r.choice([None, 0]), []]
        if k == "st":
            return ["st", hx("S"), 0, []]
        if k == "sv":
            return ["sv", hx("E"), 2, hx("V"), 0, []]
        if k == "ns-bad":
            return ["ns", hx("N"), ["b", True]]
        return [k]

    # ------------------------------------------------------------ trees
    def hint(self, n, optional):
        """length hint for a compound with n children: truthful, absent, or (rarely) lying"""
        r = self.rng
        x = r.random()
        if x < 0.04:
            self.count("hint:lying")
            return r.choice([0, n + 1, 0 if n else 3])
        if optional and x < 0.3:
            return None
        return n

    def tree(self, depth, bad_keys=0.0, width=4):
        r = self.rng
        if depth <= 0 or r.random() < 0.25:
            return self.leaf()
        k = r.choice(["some", "ns", "nv", "seq", "seq", "tup", "ts", "tv", "map", "map", "st", "st", "sv", "hr"])
        self.count("node:" + k)
        if k == "hr":
            return ["hr", self.tree(depth - 1, bad_keys, width), self.tree(min(depth - 1, 1), 0.0, 2)]
        sub = lambda: self.tree(depth - 1, bad_keys, width)
        n = r.choice([0, 1, 1, 2, 2, 3, width])
        if k == "some":
            return ["some", sub()]
        if k == "ns":
            return ["ns", hx(self.name()), sub()]
        if k == "nv":
            return ["nv", hx(self.name()), r.randrange(0, 9), hx(self.string(8)), sub()]
        if k == "seq":
            return ["seq", self.hint(n, True), [sub() for _ in range(n)]]
        if k == "tup":
            return ["tup", self.hint(n, False), [sub() for _ in range(n)]]
        if k == "ts":
            return ["ts", hx(self.name()), self.hint(n, False), [sub() for _ in range(n)]]
        if k == "tv":
            return ["tv", hx(self.name()), r.randrange(0, 9), hx(self.string(8)), self.hint(n, False),
                    [sub() for _ in range(n)]]
        if k == "map":
            kvs = []
            for _ in range(n):
                key = self.bad_key() if r.random() < bad_keys else self.good_key()
                kvs.append([key, sub()])
            return ["map", self.hint(n, True), kvs]
        flds = [[hx(self.name() if r.random() < 0.7 else self.string(6)), sub()] for _ in range(n)]
        if k == "st":
            return ["st", hx(self.name()), self.hint(n, False), flds]
        return ["sv", hx(self.name()), r.randrange(0, 9), hx(self.string(8)), self.hint(n, False), flds]


def children(t):
    """(container list, index) slots holding the value-position children of a node"""
    k = t[0]
    if k == "some":
        return [(t, 1)]
    if k == "ns":
        return [(t, 2)]
    if k == "nv":
        return [(t, 4)]
    if k in ("seq", "tup"):
        return [(t[2], i) for i in range(len(t[2]))]
    if k == "ts":
        return [(t[3], i) for i in range(len(t[3]))]
    if k == "tv":
        return [(t[5], i) for i in range(len(t[5]))]
    if k == "map":
        return [(kv, 1) for kv in t[2]]
    if k == "st":
        return [(kv, 1) for kv in t[3]]
    if k == "sv":
        return [(kv, 1) for kv in t[5]]
    if k == "hr":
        return [(t, 1), (t, 2)]
    return []


def subtrees(t):
    """every value-position subtree (the tree itself first)"""
    out = [t]
    for holder, idx in children(t):
        out.extend(subtrees(holder[idx]))
    if t[0] == "map":
        out.extend(kv[0] for kv in t[2])
    return out


def inject_bad_key(g, t):
    """Replace a random value position of the tree by a map that has an unacceptable key (at a
    random entry position, so that output may already have been produced when it is met)."""
    r = g.rng
    root = [t]
    holder, idx = root, 0
    while True:
        ch = children(holder[idx])
        if not ch or r.random() < 0.35:
            break
        holder, idx = r.choice(ch)
    x = holder[idx]
    before = [[g.good_key(), g.leaf()] for _ in range(r.choice([0, 0, 1, 2]))]
    after = [[g.good_key(), g.leaf()] for _ in range(r.choice([0, 0, 1]))]
    n = len(before) + len(after) + 1
    holder[idx] = ["map", r.choice([None, n, n]), before + [[g.bad_key(), x]] + after]
    return root[0]


def nonfinite32(bits):
    return (bits >> 23) & 0xFF == 0xFF


def nonfinite64(bits):
    return (bits >> 52) & 0x7FF == 0x7FF


def has_bad_key(t):
    """mirror of Coq `keys_ok` (negated), used for the input statistics only"""
    k = t[0]
    if k in ("some",):
        return has_bad_key(t[1])
    if k == "ns":
        return has_bad_key(t[2])
    if k == "nv":
        return has_bad_key(t[4])
    if k == "seq":
        return any(has_bad_key(e) for e in t[2])
    if k == "tup":
        return any(has_bad_key(e) for e in t[2])
    if k == "ts":
        return any(has_bad_key(e) for e in t[3])
    if k == "tv":
        return any(has_bad_key(e) for e in t[5])
    if k == "map":
        return any((not key_ok(kk)) or has_bad_key(x) for kk, x in t[2])
    if k == "st":
        return any(has_bad_key(x) for _, x in t[3])
    if k == "sv":
        return any(has_bad_key(x) for _, x in t[5])
    if k == "hr":
        return has_bad_key(t[1])
    return False


def key_ok(t):
    if t[0] in ("s", "c", "i", "uv", "cs", "net"):
        return True
    if t[0] == "json":
        return t[1] is not None and t[1][0] in ("js", "ju", "ji")
    if t[0] == "ns":
        return key_ok(t[2])
    if t[0] == "hr":
        return key_ok(t[1])
    return False


def size(t):
    k = t[0]
    kids = []
    if k == "some":
        kids = [t[1]]
    elif k == "ns":
        kids = [t[2]]
    elif k == "nv":
        kids = [t[4]]
    elif k in ("seq", "tup"):
        kids = t[2]
    elif k == "ts":
        kids = t[3]
    elif k == "tv":
        kids = t[5]
    elif k == "map":
        kids = [x for kv in t[2] for x in kv]
    elif k == "st":
        kids = [x for _, x in t[3]]
    elif k == "sv":
        kids = [x for _, x in t[5]]
    elif k == "hr":
        kids = [t[1], t[2]]
    return 1 + sum(size(x) for x in kids)


# ---------------------------------------------------------------- Coq rendering
def cb(hexs):
    """a byte list, spelled with the constants x00..xff of Ser/SerdeExec.v"""
    return "[" + ";".join("x" + hexs[i:i + 2] for i in range(0, len(hexs), 2)) + "]"


def cbytes(b):
    return "[" + ";".join(str(x) for x in b) + "]"


def clen(x):
    return "None" if x is None else "(Some %d)" % x


def cfval(kind, bits, ftoks):
    nonfin = nonfinite32(bits) if kind == "f32" else nonfinite64(bits)
    if nonfin:
        return "FNonFinite"
    tok = ftoks.get("%s:%d" % (kind, bits))
    if tok is None:
        raise KeyError("no float token for %s:%d" % (kind, bits))
    return "(FFinite %s)" % cb(tok)


def coq_sval(t, ftoks):
    k = t[0]
    cl = lambda es: "[" + "; ".join(coq_sval(e, ftoks) for e in es) + "]"
    cf = lambda fs: "[" + "; ".join("(%s, %s)" % (cb(f), coq_sval(x, ftoks)) for f, x in fs) + "]"
    if k == "b":
        return "(SBool %s)" % ("true" if t[1] else "false")
    if k == "i":
        return "(SInt %s (%s)%%Z)" % (t[1].upper(), t[2])
    if k == "f32":
        return "(SF32 %s)" % cfval("f32", t[1], ftoks)
    if k == "f64":
        return "(SF64 %s)" % cfval("f64", int(t[1]), ftoks)
    if k == "c":
        return "(SChar %d)" % t[1]
    if k == "s":
        return "(SStr %s)" % cb(t[1])
    if k == "y":
        return "(SBytes %s)" % cb(t[1])
    if k == "none":
        return "SNone"
    if k == "some":
        return "(SSome %s)" % coq_sval(t[1], ftoks)
    if k == "unit":
        return "SUnit"
    if k == "us":
        return "(SUnitStruct %s)" % cb(t[1])
    if k == "uv":
        return "(SUnitVariant %s %d %s)" % (cb(t[1]), t[2], cb(t[3]))
    if k == "ns":
        return "(SNewtypeStruct %s %s)" % (cb(t[1]), coq_sval(t[2], ftoks))
    if k == "nv":
        return "(SNewtypeVariant %s %d %s %s)" % (cb(t[1]), t[2], cb(t[3]), coq_sval(t[4], ftoks))
    if k == "seq":
        return "(SSeq %s %s)" % (clen(t[1]), cl(t[2]))
    if k == "tup":
        return "(STuple %d %s)" % (t[1], cl(t[2]))
    if k == "ts":
        return "(STupleStruct %s %d %s)" % (cb(t[1]), t[2], cl(t[3]))
    if k == "tv":
        return "(STupleVariant %s %d %s %d %s)" % (cb(t[1]), t[2], cb(t[3]), t[4], cl(t[5]))
    if k == "map":
        return "(SMap %s [%s])" % (clen(t[1]), "; ".join(
            "(%s, %s)" % (coq_sval(kk, ftoks), coq_sval(x, ftoks)) for kk, x in t[2]))
    if k == "st":
        return "(SStruct %s %d %s)" % (cb(t[1]), t[2], cf(t[3]))
    if k == "sv":
        return "(SStructVariant %s %d %s %d %s)" % (cb(t[1]), t[2], cb(t[3]), t[4], cf(t[5]))
    if k == "cs":
        return "(SCollectStr [%s])" % "; ".join(cb(f) for f in t[1])
    if k == "hr":
        return "(SHumanReadable %s %s)" % (coq_sval(t[1], ftoks), coq_sval(t[2], ftoks))
    if k == "net":
        return coq_net(t, ftoks)
    if k == "json":
        return coq_json(t[1], ftoks)
    raise ValueError("bad tree tag %r" % k)


def coq_json(j, ftoks):
    """The calls serde_json's Serialize impls for Value issue (serde_json-1.0.145 value/ser.rs:11-36,
    number.rs:369-380 without arbitrary_precision): Null -> serialize_unit, Bool -> serialize_bool,
    Number -> serialize_u64 / serialize_i64 (negative) / serialize_f64, String -> serialize_str,
    Array (a Vec) -> serialize_seq(Some(len)), Object -> serialize_map(Some(len)) with the String
    keys in the order of the Map: a BTreeMap (feature preserve_order is off), i.e. sorted by the
    UTF-8 bytes of the key, a repeated key keeping its last value."""
    if j is None:
        return "SUnit"
    k = j[0]
    if k == "jb":
        return "(SBool %s)" % ("true" if j[1] else "false")
    if k == "ju":
        return "(SInt U64 (%s)%%Z)" % j[1]
    if k == "ji":
        return "(SInt I64 (%s)%%Z)" % j[1]
    if k == "jf":
        return "(SF64 %s)" % cfval("f64", int(j[1]), ftoks)
    if k == "js":
        return "(SStr %s)" % cb(j[1])
    if k == "ja":
        return "(SSeq (Some %d) [%s])" % (len(j[1]), "; ".join(coq_json(x, ftoks) for x in j[1]))
    if k == "jo":
        members = {}
        for key, x in j[1]:
            members[bytes.fromhex(key)] = x
        return "(SMap (Some %d) [%s])" % (len(members), "; ".join(
            "(SStr %s, %s)" % (cb(key.hex()), coq_json(members[key], ftoks)) for key in sorted(members)))
    raise ValueError("bad json tag %r" % (j,))


def coq_net(t, ftoks):
    """The calls serde's impls for the std::net types issue (serde_core ser/impls.rs:736-905): the
    Display text through serialize_str when is_human_readable(), else octet tuples, (ip, port)
    tuples and V4/V6 newtype variants; the enum impls delegate to the inner type, which asks again."""
    _, kind, octs, port = t
    tok = ftoks.get("net:%s:%s:%d" % (kind, octs, port))
    if tok is None:
        raise KeyError("no Display text for %r" % (t,))
    o = bytes.fromhex(octs)
    tup = "(STuple %d [%s])" % (len(o), "; ".join("SInt U8 (%d)%%Z" % b for b in o))
    text = "(SStr %s)" % cb(tok)
    six = kind.endswith("6")
    var = "%d %s" % (1 if six else 0, cb(hx("V6" if six else "V4")))
    if kind in ("v4", "v6"):
        return "(SHumanReadable %s %s)" % (text, tup)
    if kind in ("ip4", "ip6"):
        inner = "(SHumanReadable %s %s)" % (text, tup)
        return "(SHumanReadable %s (SNewtypeVariant %s %s %s))" % (inner, cb(hx("IpAddr")), var, inner)
    pair = "(STuple 2 [%s; SInt U16 (%d)%%Z])" % (tup, port)
    inner = "(SHumanReadable %s %s)" % (text, pair)
    return "(SHumanReadable %s (SNewtypeVariant %s %s %s))" % (inner, cb(hx("SocketAddr")), var, inner)


def copt(hexs):
    return "None" if hexs is None else "(Some %s)" % cb(hexs)


def float_roundtrips(ftoks):
    """Sanity of the opaque tokens: each finite token parses back to the float it stands for."""
    bad = []
    for key, tok in ftoks.items():
        if key.startswith("net:"):
            continue
        kind, bits = key.split(":")
        bits = int(bits)
        text = bytes.fromhex(tok).decode()
        if kind == "f32":
            if nonfinite32(bits):
                continue
            want = struct.unpack("<f", struct.pack("<I", bits))[0]
            try:
                got = struct.unpack("<f", struct.pack("<f", float(text)))[0]
            except (OverflowError, ValueError):
                bad.append(key)
                continue
        else:
            if nonfinite64(bits):
                continue
            want = struct.unpack("<d", struct.pack("<Q", bits))[0]
            try:
                got = float(text)
            except ValueError:
                bad.append(key)
                continue
        if got != want or (got == 0 and (str(got)[0] == "-") != (str(want)[0] == "-")):
            bad.append(key)
    return bad
