//! Real Unix-socket harness (C19): tokio and smol runtimes, zlink connections on both ends.
//! Built WITHOUT `--cfg zlink_verif` (production buffer limit), see checks/c19.py.
//! stdin: one JSON case per line; stdout: one JSON result per line.
//!
//! kinds:
//!  "intact": `conns` connections over a bound listener (optionally built from an inherited fd);
//!            both ends send `msgs` (sizes) concurrently and receive the peer's; readers may be slow.
//!  "cancel": socketpair with a small kernel send buffer; the peer does not read; a send is abandoned
//!            by a timeout; the number of bytes the kernel took is measured at the peer; a further
//!            message is sent; the peer's raw byte stream is reported.
//!  "backpressure": socketpair with a small kernel send buffer; the connection's writer sends `n` frames of
//!            `size` bytes to a peer that does not read yet (the send direction backs up) while its reader
//!            waits; the peer then writes one small frame and only 3 s later starts to drain. The small
//!            frame must be received before the drain starts (a receive must be woken by arriving data,
//!            whatever the state of the send direction), and the drained frames must be intact.
use serde::{Deserialize, Serialize};
use serde_json::{json, Value};
use std::future::Future;
use std::io::{BufRead, Read, Write};
use std::os::fd::{AsRawFd, OwnedFd};
use std::os::unix::net::{UnixListener as StdListener, UnixStream as StdStream};
use std::pin::Pin;
use std::time::Duration;
use zlink_core::connection::socket::{ReadHalf, Socket, WriteHalf};
use zlink_core::connection::{ReadConnection, WriteConnection};
use zlink_core::{Call, Connection, Listener};
use zv::{digest, hex};

#[derive(Debug, Serialize, Deserialize)]
#[serde(tag = "method", content = "parameters")]
enum Method {
    #[serde(rename = "org.example.Put")]
    Put { name: String, value: u64 },
}

fn body(conn: usize, dir: usize, idx: usize, size: usize) -> String {
    let a = b"abcdefghijklmnopqrstuvwxyz0123456789";
    let mut s = String::with_capacity(size);
    let mut x = (conn * 7919 + dir * 104729 + idx * 31 + size) as u64;
    for _ in 0..size {
        x = x.wrapping_mul(6364136223846793005).wrapping_add(1442695040888963407);
        s.push(a[((x >> 33) % 36) as usize] as char);
    }
    s
}

fn msg(conn: usize, dir: usize, idx: usize, size: usize) -> Call<Method> {
    Call::new(Method::Put { name: body(conn, dir, idx, size), value: idx as u64 })
}

/// The abstract-namespace address of a case that asks for one (unique per process and case).
fn abstract_addr_of(case: &Value) -> Option<std::os::unix::net::SocketAddr> {
    use std::os::linux::net::SocketAddrExt;
    if case["abstract"].as_bool().unwrap_or(false) {
        let name = format!("zv-c19-{}-{}", std::process::id(), case["id"]);
        Some(std::os::unix::net::SocketAddr::from_abstract_name(name.as_bytes()).unwrap())
    } else {
        None
    }
}

type Sleep = fn(Duration) -> Pin<Box<dyn Future<Output = ()>>>;

async fn writer<W: WriteHalf>(mut w: WriteConnection<W>, conn: usize, dir: usize, sizes: Vec<usize>, pipeline: bool) -> Result<(), String> {
    for (i, sz) in sizes.iter().enumerate() {
        let m = msg(conn, dir, i, *sz);
        if pipeline {
            w.enqueue_call(&m).map_err(|e| format!("enqueue: {e:?}"))?;
            if i % 3 == 2 || i + 1 == sizes.len() {
                w.flush().await.map_err(|e| format!("flush: {e:?}"))?;
            }
        } else {
            w.send_call(&m).await.map_err(|e| format!("send: {e:?}"))?;
        }
    }
    Ok(())
}

async fn reader<R: ReadHalf>(mut r: ReadConnection<R>, conn: usize, dir: usize, sizes: Vec<usize>, delay_ms: u64, sleep: Sleep) -> Vec<String> {
    let mut out = Vec::new();
    for (i, sz) in sizes.iter().enumerate() {
        if delay_ms > 0 {
            sleep(Duration::from_millis(delay_ms)).await;
        }
        match r.receive_call::<Method>().await {
            Ok(c) => {
                let Method::Put { name, value } = c.method();
                if *value == i as u64 && name.len() == *sz && *name == body(conn, dir, i, *sz) {
                    out.push("ok".into());
                } else {
                    out.push(format!("corrupt:len={}:value={}:{}", name.len(), value, digest(name)));
                }
            }
            Err(e) => {
                out.push(format!("err:{}", zv::err_name(&e)));
                break;
            }
        }
    }
    out
}

/// Peer for the recv_cancel scenario: writes each frame in the given segments with pauses.
fn segment_sender(mut peer: StdStream, sizes: Vec<usize>, cuts: Vec<Vec<usize>>, gap_ms: u64) -> std::thread::JoinHandle<()> {
    std::thread::spawn(move || {
        for (i, sz) in sizes.iter().enumerate() {
            let mut frame = serde_json::to_vec(&msg(0, 0, i, *sz)).unwrap();
            frame.push(0);
            let mut prev = 0;
            let mut cs: Vec<usize> = cuts.get(i).cloned().unwrap_or_default().into_iter().filter(|c| *c > 0 && *c < frame.len()).collect();
            cs.sort_unstable();
            cs.dedup();
            cs.push(frame.len());
            for c in cs {
                let _ = peer.write_all(&frame[prev..c]);
                let _ = peer.flush();
                prev = c;
                std::thread::sleep(Duration::from_millis(gap_ms));
            }
        }
        // keep the socket open until the receiver is done (it is dropped with this thread's end)
        std::thread::sleep(Duration::from_millis(300));
    })
}

fn check_call(i: usize, sz: usize, r: zlink_core::Result<Call<Method>>) -> String {
    match r {
        Ok(c) => {
            let Method::Put { name, value } = c.method();
            if *value == i as u64 && name.len() == sz && *name == body(0, 0, i, sz) {
                "ok".into()
            } else {
                format!("corrupt:len={}:value={}", name.len(), value)
            }
        }
        Err(e) => format!("err:{}", zv::err_name(&e)),
    }
}

/// Peer of the backpressure scenario (a plain thread on the raw socket): lets the sender back up, writes
/// one small frame, waits, then drains `n` frames. Returns (when the drain started, frames intact?).
fn backpressure_peer(mut peer: StdStream, n: usize, size: usize) -> std::thread::JoinHandle<(std::time::Instant, usize, bool)> {
    std::thread::spawn(move || {
        std::thread::sleep(Duration::from_millis(400));
        let mut small = serde_json::to_vec(&msg(0, 1, 0, 8)).unwrap();
        small.push(0);
        let _ = peer.write_all(&small);
        let _ = peer.flush();
        std::thread::sleep(Duration::from_millis(3000));
        let drain_start = std::time::Instant::now();
        peer.set_read_timeout(Some(Duration::from_secs(10))).unwrap();
        let mut got: Vec<u8> = Vec::new();
        let mut buf = vec![0u8; 65536];
        let mut frames = 0usize;
        while frames < n {
            match peer.read(&mut buf) {
                Ok(0) | Err(_) => break,
                Ok(k) => {
                    frames += buf[..k].iter().filter(|b| **b == 0).count();
                    got.extend_from_slice(&buf[..k]);
                }
            }
        }
        let mut expect: Vec<u8> = Vec::new();
        for i in 0..n {
            expect.extend(serde_json::to_vec(&msg(0, 0, i, size)).unwrap());
            expect.push(0);
        }
        (drain_start, frames, got == expect)
    })
}

/// The connection's side of the backpressure scenario: reader and writer polled side by side.
async fn backpressure_body<R: ReadHalf, W: WriteHalf>(mut r: ReadConnection<R>, mut w: WriteConnection<W>, n: usize, size: usize,
                                                        sleep: Sleep) -> (Option<(std::time::Instant, String)>, Result<(), String>) {
    let reader = async {
        let res = r.receive_call::<Method>().await;
        let at = std::time::Instant::now();
        let s = match res {
            Ok(c) => {
                let Method::Put { name, value } = c.method();
                if *value == 0 && *name == body(0, 1, 0, 8) { "ok".to_string() } else { "corrupt".to_string() }
            }
            Err(e) => format!("err:{}", zv::err_name(&e)),
        };
        (at, s)
    };
    let writer = async {
        for i in 0..n {
            w.send_call(&msg(0, 0, i, size)).await.map_err(|e| format!("send: {e:?}"))?;
        }
        Ok::<(), String>(())
    };
    futures_lite::future::or(
        async {
            let (a, b) = futures_lite::future::zip(reader, writer).await;
            (Some(a), b)
        },
        async {
            sleep(Duration::from_secs(20)).await;
            (None, Err("timeout".to_string()))
        },
    )
    .await
}

fn backpressure_result(recv: Option<(std::time::Instant, String)>, wres: Result<(), String>,
                       peer: (std::time::Instant, usize, bool)) -> Value {
    let (drain_start, frames, intact) = peer;
    json!({"recv": recv.as_ref().map(|x| x.1.clone()), "recv_before_drain": recv.as_ref().map(|x| x.0 < drain_start),
           "write": wres.err(), "frames": frames, "intact": intact})
}

fn set_small_sndbuf(fd: i32) {
    let v: libc::c_int = 1024;
    unsafe {
        libc::setsockopt(fd, libc::SOL_SOCKET, libc::SO_SNDBUF, &v as *const _ as *const libc::c_void, 4);
    }
}

fn drain(peer: &mut StdStream, idle_ms: u64) -> Vec<u8> {
    peer.set_nonblocking(true).unwrap();
    let mut out = Vec::new();
    let mut buf = vec![0u8; 65536];
    let mut idle = 0;
    while idle < idle_ms {
        match peer.read(&mut buf) {
            Ok(0) => break,
            Ok(n) => {
                out.extend_from_slice(&buf[..n]);
                idle = 0;
            }
            Err(_) => {
                std::thread::sleep(Duration::from_millis(5));
                idle += 5;
            }
        }
    }
    out
}

// ---------------------------------------------------------------- tokio
mod tk {
    use super::*;
    fn sleep(d: Duration) -> Pin<Box<dyn Future<Output = ()>>> {
        Box::pin(tokio::time::sleep(d))
    }

    pub fn intact(case: &Value) -> Value {
        let rt = tokio::runtime::Builder::new_current_thread().enable_all().build().unwrap();
        let local = tokio::task::LocalSet::new();
        local.block_on(&rt, async {
            let dir = tempfile::tempdir().unwrap();
            let path = dir.path().join("s.sock");
            let conns = case["conns"].as_u64().unwrap() as usize;
            let c2s: Vec<usize> = case["c2s"].as_array().unwrap().iter().map(|x| x.as_u64().unwrap() as usize).collect();
            let s2c: Vec<usize> = case["s2c"].as_array().unwrap().iter().map(|x| x.as_u64().unwrap() as usize).collect();
            let delay_s = case["server_delay_ms"].as_u64().unwrap_or(0);
            let delay_c = case["client_delay_ms"].as_u64().unwrap_or(0);
            let pipeline = case["pipeline"].as_bool().unwrap_or(false);
            // "abstract": the inherited listener lives in the Linux abstract namespace (no pathname)
            let abstract_addr = abstract_addr_of(case);
            let mut listener = if let Some(a) = &abstract_addr {
                let l = StdListener::bind_addr(a).unwrap();
                let fd: OwnedFd = l.into();
                match zlink_tokio::unix::Listener::try_from(fd) {
                    Ok(l) => l,
                    Err(e) => return json!({"listener_error": format!("{e:?}")}),
                }
            } else if case["from_fd"].as_bool().unwrap_or(false) {
                let l = StdListener::bind(&path).unwrap();
                let fd: OwnedFd = l.into();
                zlink_tokio::unix::Listener::try_from(fd).unwrap()
            } else {
                zlink_tokio::unix::bind(&path).unwrap()
            };
            let mut tasks = Vec::new();
            let mut ids = Vec::new();
            for c in 0..conns {
                let p = path.clone();
                let aa = abstract_addr.clone();
                let client = tokio::task::spawn_local(async move {
                    match aa {
                        Some(a) => {
                            let st = StdStream::connect_addr(&a).unwrap();
                            st.set_nonblocking(true).unwrap();
                            let st = tokio::net::UnixStream::from_std(st).unwrap();
                            Connection::new(zlink_tokio::unix::Stream::from(st))
                        }
                        None => zlink_tokio::unix::connect(&p).await.unwrap(),
                    }
                });
                let sconn = listener.accept().await.unwrap();
                let cconn = client.await.unwrap();
                ids.push(sconn.id());
                ids.push(cconn.id());
                let (sr, sw) = sconn.split();
                let (cr, cw) = cconn.split();
                tasks.push(tokio::task::spawn_local(writer(cw, c, 0, c2s.clone(), pipeline)));
                tasks.push(tokio::task::spawn_local(writer(sw, c, 1, s2c.clone(), pipeline)));
                let r1 = tokio::task::spawn_local(reader(sr, c, 0, c2s.clone(), delay_s, sleep));
                let r2 = tokio::task::spawn_local(reader(cr, c, 1, s2c.clone(), delay_c, sleep));
                tasks.push(tokio::task::spawn_local(async move {
                    let a = r1.await.unwrap();
                    let b = r2.await.unwrap();
                    Err::<(), String>(serde_json::to_string(&json!({"c2s": a, "s2c": b})).unwrap())
                }));
            }
            let mut recv = Vec::new();
            let mut werr = Vec::new();
            for t in tasks {
                match tokio::time::timeout(Duration::from_secs(case["timeout_s"].as_u64().unwrap_or(30)), t).await {
                    Ok(Ok(Ok(()))) => {}
                    Ok(Ok(Err(s))) => {
                        if s.starts_with('{') { recv.push(serde_json::from_str::<Value>(&s).unwrap()) } else { werr.push(s) }
                    }
                    Ok(Err(e)) => werr.push(format!("join: {e}")),
                    Err(_) => werr.push("timeout".into()),
                }
            }
            json!({"recv": recv, "write_errors": werr, "ids": ids})
        })
    }

    pub fn recv_cancel(case: &Value) -> Value {
        let rt = tokio::runtime::Builder::new_current_thread().enable_all().build().unwrap();
        rt.block_on(async {
            let (a, peer) = StdStream::pair().unwrap();
            a.set_nonblocking(true).unwrap();
            let stream = tokio::net::UnixStream::from_std(a).unwrap();
            let mut conn: Connection<zlink_tokio::unix::Stream> = Connection::new(zlink_tokio::unix::Stream::from(stream));
            let (sizes, cuts, gap, rto) = recv_cancel_params(case);
            let th = segment_sender(peer, sizes.clone(), cuts, gap);
            let mut results = Vec::new();
            let mut cancels = 0u64;
            let start = std::time::Instant::now();
            while results.len() < sizes.len() && start.elapsed() < Duration::from_secs(20) {
                match tokio::time::timeout(Duration::from_millis(rto), conn.receive_call::<Method>()).await {
                    Ok(r) => {
                        let i = results.len();
                        results.push(check_call(i, sizes[i], r));
                    }
                    Err(_) => cancels += 1,
                }
            }
            drop(conn);
            let _ = th.join();
            json!({"results": results, "cancels": cancels})
        })
    }

    pub fn backpressure(case: &Value) -> Value {
        let rt = tokio::runtime::Builder::new_current_thread().enable_all().build().unwrap();
        rt.block_on(async {
            let (a, peer) = StdStream::pair().unwrap();
            set_small_sndbuf(a.as_raw_fd());
            a.set_nonblocking(true).unwrap();
            let stream = tokio::net::UnixStream::from_std(a).unwrap();
            let conn: Connection<zlink_tokio::unix::Stream> = Connection::new(zlink_tokio::unix::Stream::from(stream));
            let (n, size) = (case["n"].as_u64().unwrap() as usize, case["size"].as_u64().unwrap() as usize);
            let th = backpressure_peer(peer, n, size);
            let (r, w) = conn.split();
            let (recv, wres) = backpressure_body(r, w, n, size, sleep).await;
            backpressure_result(recv, wres, th.join().unwrap())
        })
    }

    pub fn cancel(case: &Value) -> Value {
        let rt = tokio::runtime::Builder::new_current_thread().enable_all().build().unwrap();
        rt.block_on(async {
            let (a, mut peer) = StdStream::pair().unwrap();
            set_small_sndbuf(a.as_raw_fd());
            a.set_nonblocking(true).unwrap();
            let stream = tokio::net::UnixStream::from_std(a).unwrap();
            let mut conn: Connection<zlink_tokio::unix::Stream> = Connection::new(zlink_tokio::unix::Stream::from(stream));
            run_cancel!(case, conn, peer, |f, ms| async move { tokio::time::timeout(Duration::from_millis(ms), f).await.ok() })
        })
    }
}

// the cancel scenario, shared by both runtimes (they differ in the timeout combinator only)
#[macro_export]
macro_rules! run_cancel {
    ($case:expr, $conn:ident, $peer:ident, $timeout:expr) => {{
        let case: &Value = $case;
        let pre: Vec<usize> = case["pre"].as_array().unwrap().iter().map(|x| x.as_u64().unwrap() as usize).collect();
        let big = case["big"].as_u64().unwrap() as usize;
        let after: Vec<usize> = case["after"].as_array().unwrap().iter().map(|x| x.as_u64().unwrap() as usize).collect();
        let wait_ms = case["timeout_ms"].as_u64().unwrap_or(80);
        let mut frames: Vec<Vec<u8>> = Vec::new();
        let mut idx = 0usize;
        let mut raw: Vec<u8> = Vec::new();
        let mut pre_ok = true;
        for sz in &pre {
            let m = msg(0, 0, idx, *sz);
            frames.push(serde_json::to_vec(&m).unwrap());
            idx += 1;
            let t = $timeout;
            pre_ok &= matches!(t($conn.send_call(&m), 2000).await, Some(Ok(())));
            raw.extend(drain(&mut $peer, 20));
        }
        // the send that gets abandoned: the peer is not reading
        let m = msg(0, 0, idx, big);
        frames.push(serde_json::to_vec(&m).unwrap());
        idx += 1;
        let t = $timeout;
        let completed = matches!(t($conn.send_call(&m), wait_ms).await, Some(Ok(())));
        let taken = drain(&mut $peer, 60);
        let k = taken.len();
        raw.extend(taken);
        let mut after_res = Vec::new();
        for sz in &after {
            let m = msg(0, 0, idx, *sz);
            frames.push(serde_json::to_vec(&m).unwrap());
            idx += 1;
            // the peer reads concurrently now (a thread) until this send has returned, so that the
            // send can complete whatever the kernel buffer size and however slow the machine is
            let mut p2 = $peer.try_clone().unwrap();
            let stop = std::sync::Arc::new(std::sync::atomic::AtomicBool::new(false));
            let stop2 = stop.clone();
            let th = std::thread::spawn(move || {
                p2.set_nonblocking(true).unwrap();
                let mut out = Vec::new();
                let mut buf = vec![0u8; 65536];
                loop {
                    match p2.read(&mut buf) {
                        Ok(0) => break,
                        Ok(n) => out.extend_from_slice(&buf[..n]),
                        Err(_) => {
                            if stop2.load(std::sync::atomic::Ordering::SeqCst) {
                                break;
                            }
                            std::thread::sleep(Duration::from_millis(2));
                        }
                    }
                }
                out
            });
            let t = $timeout;
            let r = t($conn.send_call(&m), 20000).await;
            stop.store(true, std::sync::atomic::Ordering::SeqCst);
            after_res.push(match r { Some(Ok(())) => "ok".to_string(), Some(Err(e)) => zv::err_name(&e), None => "timeout".into() });
            raw.extend(th.join().unwrap());
        }
        raw.extend(drain(&mut $peer, 60));
        json!({"frames": frames.iter().map(|f| hex(f)).collect::<Vec<_>>(), "pre_ok": pre_ok,
               "completed": completed, "k": k, "after": after_res, "raw": hex(&raw)})
    }};
}

// ---------------------------------------------------------------- smol
mod sm {
    use super::*;
    fn sleep(d: Duration) -> Pin<Box<dyn Future<Output = ()>>> {
        Box::pin(async move {
            smol::Timer::after(d).await;
        })
    }

    pub fn intact(case: &Value) -> Value {
        let ex = smol::LocalExecutor::new();
        smol::block_on(ex.run(async {
            let dir = tempfile::tempdir().unwrap();
            let path = dir.path().join("s.sock");
            let conns = case["conns"].as_u64().unwrap() as usize;
            let c2s: Vec<usize> = case["c2s"].as_array().unwrap().iter().map(|x| x.as_u64().unwrap() as usize).collect();
            let s2c: Vec<usize> = case["s2c"].as_array().unwrap().iter().map(|x| x.as_u64().unwrap() as usize).collect();
            let delay_s = case["server_delay_ms"].as_u64().unwrap_or(0);
            let delay_c = case["client_delay_ms"].as_u64().unwrap_or(0);
            let pipeline = case["pipeline"].as_bool().unwrap_or(false);
            let abstract_addr = abstract_addr_of(case);
            let mut listener = if let Some(a) = &abstract_addr {
                let l = StdListener::bind_addr(a).unwrap();
                let fd: OwnedFd = l.into();
                match zlink_smol::unix::Listener::try_from(fd) {
                    Ok(l) => l,
                    Err(e) => return json!({"listener_error": format!("{e:?}")}),
                }
            } else if case["from_fd"].as_bool().unwrap_or(false) {
                let l = StdListener::bind(&path).unwrap();
                let fd: OwnedFd = l.into();
                zlink_smol::unix::Listener::try_from(fd).unwrap()
            } else {
                zlink_smol::unix::bind(&path).unwrap()
            };
            let mut wtasks = Vec::new();
            let mut rtasks = Vec::new();
            let mut ids = Vec::new();
            for c in 0..conns {
                let p = path.clone();
                let aa = abstract_addr.clone();
                let client = ex.spawn(async move {
                    match aa {
                        Some(a) => {
                            let st = StdStream::connect_addr(&a).unwrap();
                            let st = smol::Async::new(st).unwrap();
                            Connection::new(zlink_smol::unix::Stream::from(st))
                        }
                        None => zlink_smol::unix::connect(&p).await.unwrap(),
                    }
                });
                let sconn = listener.accept().await.unwrap();
                let cconn = client.await;
                ids.push(sconn.id());
                ids.push(cconn.id());
                let (sr, sw) = sconn.split();
                let (cr, cw) = cconn.split();
                wtasks.push(ex.spawn(writer(cw, c, 0, c2s.clone(), pipeline)));
                wtasks.push(ex.spawn(writer(sw, c, 1, s2c.clone(), pipeline)));
                rtasks.push((ex.spawn(reader(sr, c, 0, c2s.clone(), delay_s, sleep)),
                             ex.spawn(reader(cr, c, 1, s2c.clone(), delay_c, sleep))));
            }
            let mut recv = Vec::new();
            let mut werr = Vec::new();
            // a reader that never gets its messages must not hang the harness
            let limit_s = case["timeout_s"].as_u64().unwrap_or(30);
            async fn limited_by<T>(t: smol::Task<T>, what: &str, secs: u64) -> Result<T, String> {
                futures_lite::future::or(async { Ok(t.await) }, async {
                    smol::Timer::after(Duration::from_secs(secs)).await;
                    Err(format!("timeout:{what}"))
                })
                .await
            }
            for (r1, r2) in rtasks {
                let a = limited_by(r1, "reader", limit_s).await.unwrap_or_else(|e| vec![e]);
                let b = limited_by(r2, "reader", limit_s).await.unwrap_or_else(|e| vec![e]);
                recv.push(json!({"c2s": a, "s2c": b}));
            }
            for t in wtasks {
                match limited_by(t, "writer", limit_s).await {
                    Ok(Ok(())) => {}
                    Ok(Err(e)) => werr.push(e),
                    Err(e) => werr.push(e),
                }
            }
            json!({"recv": recv, "write_errors": werr, "ids": ids})
        }))
    }

    pub fn recv_cancel(case: &Value) -> Value {
        smol::block_on(async {
            let (a, peer) = StdStream::pair().unwrap();
            let stream = async_io::Async::new(a).unwrap();
            let mut conn: Connection<zlink_smol::unix::Stream> = Connection::new(zlink_smol::unix::Stream::from(stream));
            let (sizes, cuts, gap, rto) = recv_cancel_params(case);
            let th = segment_sender(peer, sizes.clone(), cuts, gap);
            let mut results = Vec::new();
            let mut cancels = 0u64;
            let start = std::time::Instant::now();
            while results.len() < sizes.len() && start.elapsed() < Duration::from_secs(20) {
                let r = futures_lite::future::or(async { Some(conn.receive_call::<Method>().await) }, async {
                    smol::Timer::after(Duration::from_millis(rto)).await;
                    None
                })
                .await;
                match r {
                    Some(r) => {
                        let i = results.len();
                        results.push(check_call(i, sizes[i], r));
                    }
                    None => cancels += 1,
                }
            }
            drop(conn);
            let _ = th.join();
            json!({"results": results, "cancels": cancels})
        })
    }

    pub fn backpressure(case: &Value) -> Value {
        smol::block_on(async {
            let (a, peer) = StdStream::pair().unwrap();
            set_small_sndbuf(a.as_raw_fd());
            let stream = async_io::Async::new(a).unwrap();
            let conn: Connection<zlink_smol::unix::Stream> = Connection::new(zlink_smol::unix::Stream::from(stream));
            let (n, size) = (case["n"].as_u64().unwrap() as usize, case["size"].as_u64().unwrap() as usize);
            let th = backpressure_peer(peer, n, size);
            let (r, w) = conn.split();
            let (recv, wres) = backpressure_body(r, w, n, size, sleep).await;
            backpressure_result(recv, wres, th.join().unwrap())
        })
    }

    pub fn cancel(case: &Value) -> Value {
        smol::block_on(async {
            let (a, mut peer) = StdStream::pair().unwrap();
            set_small_sndbuf(a.as_raw_fd());
            let stream = async_io::Async::new(a).unwrap();
            let mut conn: Connection<zlink_smol::unix::Stream> = Connection::new(zlink_smol::unix::Stream::from(stream));
            run_cancel!(case, conn, peer, |f, ms| async move {
                futures_lite::future::or(async { Some(f.await) }, async {
                    smol::Timer::after(Duration::from_millis(ms)).await;
                    None
                })
                .await
            })
        })
    }
}

/// Connections created concurrently from several threads (socketpairs wrapped in zlink
/// connections of the given runtime's socket type): all identifiers must be distinct.
fn ids(case: &Value) -> Value {
    let threads = case["threads"].as_u64().unwrap() as usize;
    let per = case["per_thread"].as_u64().unwrap() as usize;
    let smol_rt = case["runtime"] == "smol";
    let handles: Vec<_> = (0..threads)
        .map(|_| {
            std::thread::spawn(move || {
                let mut v = Vec::with_capacity(per * 2);
                if smol_rt {
                    for _ in 0..per {
                        let (a, b) = StdStream::pair().unwrap();
                        let ca: Connection<zlink_smol::unix::Stream> =
                            Connection::new(zlink_smol::unix::Stream::from(async_io::Async::new(a).unwrap()));
                        let cb: Connection<zlink_smol::unix::Stream> =
                            Connection::new(zlink_smol::unix::Stream::from(async_io::Async::new(b).unwrap()));
                        v.push(ca.id());
                        v.push(cb.id());
                    }
                } else {
                    let rt = tokio::runtime::Builder::new_current_thread().enable_all().build().unwrap();
                    let _g = rt.enter();
                    for _ in 0..per {
                        let (a, b) = StdStream::pair().unwrap();
                        a.set_nonblocking(true).unwrap();
                        b.set_nonblocking(true).unwrap();
                        let ca: Connection<zlink_tokio::unix::Stream> = Connection::new(
                            zlink_tokio::unix::Stream::from(tokio::net::UnixStream::from_std(a).unwrap()));
                        let cb: Connection<zlink_tokio::unix::Stream> = Connection::new(
                            zlink_tokio::unix::Stream::from(tokio::net::UnixStream::from_std(b).unwrap()));
                        v.push(ca.id());
                        v.push(cb.id());
                    }
                }
                v
            })
        })
        .collect();
    let mut all: Vec<usize> = handles.into_iter().flat_map(|h| h.join().unwrap()).collect();
    let n = all.len();
    all.sort_unstable();
    let dups = all.windows(2).filter(|w| w[0] == w[1]).count();
    json!({"created": n, "duplicates": dups})
}

fn recv_cancel_params(case: &Value) -> (Vec<usize>, Vec<Vec<usize>>, u64, u64) {
    let sizes: Vec<usize> = case["sizes"].as_array().unwrap().iter().map(|x| x.as_u64().unwrap() as usize).collect();
    let cuts: Vec<Vec<usize>> = case["cuts"].as_array().unwrap().iter()
        .map(|a| a.as_array().unwrap().iter().map(|x| x.as_u64().unwrap() as usize).collect()).collect();
    (sizes, cuts, case["gap_ms"].as_u64().unwrap_or(30), case["recv_timeout_ms"].as_u64().unwrap_or(10))
}

fn run_case(case: &Value) -> Value {
    if case["kind"] == "ids" {
        let mut out = ids(case);
        out["id"] = case["id"].clone();
        return out;
    }
    let rt = case["runtime"].as_str().unwrap();
    let kind = case["kind"].as_str().unwrap();
    let mut out = match (rt, kind) {
        ("tokio", "intact") => tk::intact(case),
        ("tokio", "cancel") => tk::cancel(case),
        ("tokio", "recv_cancel") => tk::recv_cancel(case),
        ("tokio", "backpressure") => tk::backpressure(case),
        ("smol", "backpressure") => sm::backpressure(case),
        ("smol", "recv_cancel") => sm::recv_cancel(case),
        ("smol", "intact") => sm::intact(case),
        ("smol", "cancel") => sm::cancel(case),
        _ => panic!("bad case"),
    };
    out["id"] = case["id"].clone();
    out
}

fn main() {
    let stdin = std::io::stdin();
    let stdout = std::io::stdout();
    let mut w = std::io::BufWriter::new(stdout.lock());
    for line in stdin.lock().lines() {
        let line = line.unwrap();
        if line.trim().is_empty() {
            continue;
        }
        let case: Value = serde_json::from_str(&line).unwrap();
        let r = std::panic::catch_unwind(|| run_case(&case));
        let out = match r {
            Ok(v) => v,
            Err(_) => json!({"id": case["id"], "panic": true}),
        };
        writeln!(w, "{}", out).unwrap();
        w.flush().unwrap();
    }
}
