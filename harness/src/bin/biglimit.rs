//! Production-limit leg of C17 (inbound): built WITHOUT `--cfg zlink_verif`. A lazy scripted
//! read half produces a frame (or an unterminated stream) of the requested size in chunks, so
//! nothing of that size is ever held besides the connection's own buffer.
//! stdin: {"id", "kind": "frame"|"unterminated", "size": wire bytes, "chunk": bytes}
use serde::Deserialize;
use serde_json::{json, Value};
use std::io::{BufRead, Write};
use std::task::Poll;
use zlink_core::connection::socket::{ReadHalf, Socket, WriteHalf};
use zlink_core::Connection;
use zv::{err_name, poll_once};

const PREFIX: &[u8] = b"{\"parameters\":{\"note\":\"";
const SUFFIX: &[u8] = b"\"}}\0";

#[derive(Debug)]
struct Gen {
    total: usize,
    pos: usize,
    chunk: usize,
    framed: bool,
    consumed: std::rc::Rc<std::cell::Cell<usize>>,
}
#[derive(Debug)]
struct GenW;
#[derive(Debug)]
struct GenSock(Gen);

impl Gen {
    fn byte(&self, i: usize) -> u8 {
        if !self.framed {
            return b'x';
        }
        if i < PREFIX.len() {
            PREFIX[i]
        } else if i >= self.total - SUFFIX.len() {
            SUFFIX[i - (self.total - SUFFIX.len())]
        } else {
            b'x'
        }
    }
}

impl ReadHalf for Gen {
    async fn read(&mut self, buf: &mut [u8]) -> zlink_core::Result<usize> {
        let n = buf.len().min(self.chunk).min(self.total - self.pos);
        for j in 0..n {
            buf[j] = self.byte(self.pos + j);
        }
        self.pos += n;
        self.consumed.set(self.pos);
        Ok(n)
    }
}
impl WriteHalf for GenW {
    async fn write(&mut self, _buf: &[u8]) -> zlink_core::Result<()> {
        Ok(())
    }
}
impl Socket for GenSock {
    type ReadHalf = Gen;
    type WriteHalf = GenW;
    fn split(self) -> (Gen, GenW) {
        (self.0, GenW)
    }
}

#[derive(Debug, Deserialize)]
#[allow(dead_code)]
struct P<'a> {
    note: &'a str,
}

#[derive(Debug, serde::Serialize)]
#[serde(tag = "method", content = "parameters")]
enum Method {
    #[serde(rename = "org.example.Put")]
    Put { name: String, value: u64 },
}

/// Outbound with the production limit: `calls` pipelined calls of `size` payload bytes each, then
/// one flush (or, with calls == 1, a single send): reports the transport write calls.
fn run_batch(case: &Value) -> Value {
    use zlink_core::Call;
    // either `calls` x `size`, or an explicit list of payload sizes
    let sizes: Vec<usize> = match case.get("sizes").and_then(|s| s.as_array()) {
        Some(a) => a.iter().map(|x| x.as_u64().unwrap() as usize).collect(),
        None => vec![case["size"].as_u64().unwrap() as usize; case["calls"].as_u64().unwrap() as usize],
    };
    // `then`: a further small call sent after the flush (what a later send puts on the wire)
    let then = case.get("then").and_then(|t| t.as_bool()).unwrap_or(false);
    let (sock, sh) = zv::SSocket::new(Default::default());
    let mut conn = Connection::new(sock);
    let mut expected: Vec<u8> = Vec::new();
    for (i, size) in sizes.iter().copied().enumerate() {
        let c = Call::new(Method::Put { name: "x".repeat(size), value: i as u64 });
        expected.extend(serde_json::to_vec(&c).unwrap());
        expected.push(0);
        if let Err(e) = conn.enqueue_call(&c) {
            return json!({"id": case["id"], "res": err_name(&e)});
        }
    }
    let res = {
        let fut = conn.flush();
        let mut fut = std::pin::pin!(fut);
        match poll_once(fut.as_mut()) {
            Poll::Ready(Ok(())) => "ok".to_string(),
            Poll::Ready(Err(e)) => err_name(&e),
            Poll::Pending => "pending".to_string(),
        }
    };
    let mut then_ok = Value::Null;
    let first_n = sh.borrow().writes.len();
    if then && res == "ok" {
        let before = first_n;
        let c = Call::new(Method::Put { name: "t".into(), value: 7 });
        let mut want = serde_json::to_vec(&c).unwrap();
        want.push(0);
        let r = {
            let fut = conn.send_call(&c);
            let mut fut = std::pin::pin!(fut);
            matches!(poll_once(fut.as_mut()), Poll::Ready(Ok(())))
        };
        let s = sh.borrow();
        let after: Vec<u8> = s.writes[before..].iter().flatten().copied().collect();
        then_ok = json!(r && after == want && s.writes.len() == before + 1);
    }
    let s = sh.borrow();
    let first_writes = &s.writes[..first_n];
    let total: Vec<u8> = first_writes.iter().flatten().copied().collect();
    json!({"id": case["id"], "res": res, "writes": first_writes.len(), "bytes": total.len(),
           "expected_bytes": expected.len(), "content_ok": total == expected, "then_ok": then_ok,
           "write_sizes": s.writes.iter().map(|w| w.len()).collect::<Vec<_>>()})
}

/// Outbound with the production limit, history-dependent: an optional first big send (the write
/// buffer has grown and was flushed), then calls of `fill` payload bytes are queued up to just
/// below the limit, then calls of `small` payload bytes until the first refusal. Reports whether
/// the queue ever held more than the limit, where the refusal came, and what the flush wrote.
fn run_fill(case: &Value) -> Value {
    use zlink_core::Call;
    let limit = case["limit"].as_u64().unwrap() as usize;
    let first = case["first"].as_u64().unwrap_or(0) as usize;
    let fill = case["fill"].as_u64().unwrap() as usize;
    let small = case["small"].as_u64().unwrap() as usize;
    let (sock, sh) = zv::SSocket::new(Default::default());
    let mut conn = Connection::new(sock);
    let wire_len = |c: &Call<Method>| serde_json::to_vec(c).unwrap().len() + 1;
    if first > 0 {
        let c = Call::new(Method::Put { name: "f".repeat(first), value: 0 });
        let fut = conn.send_call(&c);
        let mut fut = std::pin::pin!(fut);
        match poll_once(fut.as_mut()) {
            Poll::Ready(Ok(())) => {}
            Poll::Ready(Err(e)) => return json!({"id": case["id"], "res": format!("first:{}", err_name(&e))}),
            Poll::Pending => return json!({"id": case["id"], "res": "first:pending"}),
        }
        let w: usize = sh.borrow().writes.iter().map(|w| w.len()).sum();
        if w != wire_len(&c) {
            return json!({"id": case["id"], "res": "first:short", "bytes": w});
        }
        sh.borrow_mut().writes.clear();
    }
    let big = Call::new(Method::Put { name: "y".repeat(fill), value: 1 });
    let big_len = wire_len(&big);
    let sm = Call::new(Method::Put { name: "z".repeat(small), value: 2 });
    let sm_len = wire_len(&sm);
    let mut queued = 0usize;
    let mut accepted = 0usize;
    let mut max_queued = 0usize;
    let mut refused_early: Option<(usize, String)> = None;
    while queued + big_len + 2 * sm_len <= limit {
        match conn.enqueue_call(&big) {
            Ok(()) => {
                queued += big_len;
                accepted += 1;
            }
            Err(e) => {
                refused_early = Some((queued, err_name(&e)));
                break;
            }
        }
    }
    max_queued = max_queued.max(queued);
    let mut refusal = json!(null);
    if refused_early.is_none() {
        for _ in 0..(limit / sm_len + 10) {
            match conn.enqueue_call(&sm) {
                Ok(()) => {
                    queued += sm_len;
                    accepted += 1;
                    max_queued = max_queued.max(queued);
                    if queued > limit + 4 * 256 {
                        break; // far beyond: stop (reported through max_queued)
                    }
                }
                Err(e) => {
                    refusal = json!({"queued": queued, "len": sm_len, "err": err_name(&e)});
                    break;
                }
            }
        }
    }
    let res = {
        let fut = conn.flush();
        let mut fut = std::pin::pin!(fut);
        match poll_once(fut.as_mut()) {
            Poll::Ready(Ok(())) => "ok".to_string(),
            Poll::Ready(Err(e)) => err_name(&e),
            Poll::Pending => "pending".to_string(),
        }
    };
    let s = sh.borrow();
    let flushed: usize = s.writes.iter().map(|w| w.len()).sum();
    json!({"id": case["id"], "res": res, "accepted": accepted, "queued": queued, "max_queued": max_queued,
           "refusal": refusal, "refused_early": refused_early.map(|(q, e)| json!({"queued": q, "err": e})),
           "flushed": flushed, "writes": s.writes.len(), "fill_len": big_len, "small_len": sm_len})
}

fn run_case(case: &Value) -> Value {
    if case["kind"] == "batch" {
        return run_batch(case);
    }
    if case["kind"] == "fill" {
        return run_fill(case);
    }
    let size = case["size"].as_u64().unwrap() as usize;
    let consumed = std::rc::Rc::new(std::cell::Cell::new(0));
    let g = Gen { total: size, pos: 0, chunk: case["chunk"].as_u64().unwrap() as usize,
                  framed: case["kind"] == "frame", consumed: consumed.clone() };
    let mut conn = Connection::new(GenSock(g));
    let res = {
        let fut = conn.receive_reply::<P<'_>, zlink_core::varlink_service::Error>();
        let mut fut = std::pin::pin!(fut);
        match poll_once(fut.as_mut()) {
            Poll::Ready(Ok(Ok(r))) => format!("ok:{}", r.parameters().map(|p| p.note.len()).unwrap_or(0)),
            Poll::Ready(Ok(Err(_))) => "merr".to_string(),
            Poll::Ready(Err(e)) => err_name(&e),
            Poll::Pending => "pending".to_string(),
        }
    };
    json!({"id": case["id"], "res": res, "consumed": consumed.get()})
}

fn main() {
    let stdin = std::io::stdin();
    let stdout = std::io::stdout();
    let mut w = std::io::BufWriter::new(stdout.lock());
    for line in stdin.lock().lines() {
        let line = line.unwrap();
        if line.trim().is_empty() {
            continue;
        }
        let case: Value = serde_json::from_str(&line).unwrap();
        let r = std::panic::catch_unwind(|| run_case(&case));
        let out = match r {
            Ok(v) => v,
            Err(_) => json!({"id": case["id"], "panic": true}),
        };
        writeln!(w, "{}", out).unwrap();
        w.flush().unwrap();
    }
}
