//! Code-generator harness (C15): runs the real zlink-codegen library.
//! stdin: one JSON case per line; stdout: one JSON result per line with the same "id".
//!   {"id":..,"op":"gen","idl":"<interface text>"}
//!       -> {"id":..,"parse_ok":bool,"gen_ok":bool,"code":"<generated module>","err":".."}
//!   {"id":..,"op":"genmulti","idls":["<interface text>", ..]}
//!       -> the same for zlink_codegen::generate_interfaces (several interfaces in one module)
//!   {"id":..,"op":"sweep","names":[..]}
//!       -> {"id":..,"snake":[..],"pascal":[..]}   the identifiers the generator derives from the
//!          names when they are used as object field names (heck to_snake_case) and as enum
//!          variant names (heck to_pascal_case); the interface is built programmatically, so the
//!          names need not be legal IDL names.
use serde_json::{json, Value};
use std::io::{BufRead, Write};
use zlink_core::idl::{CustomEnum, CustomObject, CustomType, EnumVariant, Field, Interface, Type};

fn gen(idl: &str) -> Value {
    let iface = match Interface::try_from(idl) {
        Ok(i) => i,
        Err(e) => return json!({"parse_ok": false, "gen_ok": false, "err": e.to_string()}),
    };
    match std::panic::catch_unwind(|| zlink_codegen::generate_interface(&iface)) {
        Ok(Ok(code)) => json!({"parse_ok": true, "gen_ok": true, "code": code}),
        Ok(Err(e)) => json!({"parse_ok": true, "gen_ok": false, "err": e.to_string()}),
        Err(_) => json!({"parse_ok": true, "gen_ok": false, "err": "panic"}),
    }
}

/// Several interfaces generated into ONE module (what a build.rs / the CLI with several files do).
fn gen_multi(idls: &[String]) -> Value {
    let mut ifaces = Vec::new();
    for idl in idls {
        match Interface::try_from(idl.as_str()) {
            Ok(i) => ifaces.push(i),
            Err(e) => return json!({"parse_ok": false, "gen_ok": false, "err": e.to_string()}),
        }
    }
    match std::panic::catch_unwind(|| zlink_codegen::generate_interfaces(&ifaces)) {
        Ok(Ok(code)) => json!({"parse_ok": true, "gen_ok": true, "code": code}),
        Ok(Err(e)) => json!({"parse_ok": true, "gen_ok": false, "err": e.to_string()}),
        Err(_) => json!({"parse_ok": true, "gen_ok": false, "err": "panic"}),
    }
}

fn sweep(names: &[String]) -> Value {
    let fields: Vec<Field<'_>> = names
        .iter()
        .map(|n| Field::new_owned(n.as_str(), Type::Int, vec![]))
        .collect();
    let variants: Vec<EnumVariant<'_>> = names
        .iter()
        .map(|n| EnumVariant::new_owned(n.as_str(), vec![]))
        .collect();
    let types = vec![
        CustomType::from(CustomObject::new_owned("SweepO", fields, vec![])),
        CustomType::from(CustomEnum::new_owned("SweepE", variants, vec![])),
    ];
    let iface = Interface::new_owned("org.example.sweep", vec![], types, vec![], vec![]);
    let code = match zlink_codegen::generate_interface(&iface) {
        Ok(c) => c,
        Err(e) => return json!({"err": e.to_string()}),
    };
    let mut snake = Vec::new();
    let mut pascal = Vec::new();
    let mut mode = 0;
    for line in code.lines() {
        let t = line.trim();
        if t.starts_with("pub struct SweepO") {
            mode = 1;
            continue;
        }
        if t.starts_with("pub enum SweepE") {
            mode = 2;
            continue;
        }
        if t == "}" {
            mode = 0;
            continue;
        }
        if mode == 1 {
            if let Some(rest) = t.strip_prefix("pub ") {
                if let Some(p) = rest.find(':') {
                    let id = &rest[..p];
                    snake.push(id.strip_prefix("r#").unwrap_or(id).to_string());
                }
            }
        } else if mode == 2 && !t.starts_with('#') && !t.starts_with('/') {
            if let Some(id) = t.strip_suffix(',') {
                pascal.push(id.to_string());
            }
        }
    }
    json!({"snake": snake, "pascal": pascal, "n": names.len()})
}

fn main() {
    let stdin = std::io::stdin();
    let out = std::io::stdout();
    for line in stdin.lock().lines() {
        let line = line.unwrap();
        if line.trim().is_empty() {
            continue;
        }
        let c: Value = serde_json::from_str(&line).unwrap();
        let mut r = match c["op"].as_str().unwrap_or("") {
            "gen" => gen(c["idl"].as_str().unwrap()),
            "genmulti" => {
                let idls: Vec<String> = c["idls"]
                    .as_array()
                    .unwrap()
                    .iter()
                    .map(|v| v.as_str().unwrap().to_string())
                    .collect();
                gen_multi(&idls)
            }
            "sweep" => {
                let names: Vec<String> = c["names"]
                    .as_array()
                    .unwrap()
                    .iter()
                    .map(|v| v.as_str().unwrap().to_string())
                    .collect();
                sweep(&names)
            }
            other => json!({"err": format!("unknown op {other}")}),
        };
        r["id"] = c["id"].clone();
        let mut o = out.lock();
        writeln!(o, "{}", r).unwrap();
    }
}
