//! Real-socket server harness (C18/C08/C07 legs): the real `Server::run` of zlink-tokio and
//! zlink-smol over real Unix sockets, on ONE thread. Clients are plain blocking std sockets whose
//! bytes are written either before the server starts or from inside the service handler at fixed
//! points ("triggers"), so the schedule is deterministic: no sleeps decide the outcome.
//! Built WITHOUT `--cfg zlink_verif`. stdin: one JSON case per line; stdout: one JSON result per line.
//!
//! case: {"id", "runtime": "tokio"|"smol",
//!        "pre": [action...],                       // before the server is first polled
//!        "triggers": [{"on": [client, seq], "do": [action...]}],   // inside Service::handle
//!        "expect_total": n, "timeout_ms": t}
//! action: ["connect", c] | ["write", c, "<hex>"] | ["close", c] | ["shutdown_write", c]
//! result: {"order": [[client, seq]...], "reads": {c: "<hex of everything client c received>"},
//!          "server": "running"|"ended: ..", "timed_out": bool}
use serde::{Deserialize, Serialize};
use serde_json::{json, Value};
use std::cell::RefCell;
use std::collections::BTreeMap;
use std::io::{BufRead, Read, Write};
use std::os::unix::net::UnixStream;
use std::path::PathBuf;
use std::rc::Rc;
use std::time::{Duration, Instant};
use zv::{hex, unhex};

#[derive(Debug, Deserialize)]
#[serde(tag = "method", content = "parameters")]
enum Method {
    #[serde(rename = "org.example.Ping")]
    Ping { client: String, seq: u32 },
}

#[derive(Debug, Serialize)]
struct Pong {
    seq: u32,
}

#[derive(Debug, Serialize)]
struct NoError;

#[derive(Default)]
struct World {
    path: PathBuf,
    clients: BTreeMap<String, Option<UnixStream>>,
    order: Vec<(String, u32)>,
    triggers: Vec<((String, u32), Vec<Value>)>,
    errors: Vec<String>,
}

impl World {
    fn act(&mut self, a: &Value) {
        let a = a.as_array().unwrap();
        let c = a[1].as_str().unwrap().to_string();
        match a[0].as_str().unwrap() {
            "connect" => match UnixStream::connect(&self.path) {
                Ok(s) => {
                    self.clients.insert(c, Some(s));
                }
                Err(e) => self.errors.push(format!("connect {c}: {e}")),
            },
            "write" => {
                let data = unhex(a[2].as_str().unwrap());
                if let Some(Some(s)) = self.clients.get_mut(&c) {
                    if let Err(e) = s.write_all(&data) {
                        self.errors.push(format!("write {c}: {e}"));
                    }
                }
            }
            "shutdown_write" => {
                if let Some(Some(s)) = self.clients.get_mut(&c) {
                    let _ = s.shutdown(std::net::Shutdown::Write);
                }
            }
            "close" => {
                self.clients.insert(c, None);
            }
            x => panic!("bad action {x}"),
        }
    }
}

type Shared = Rc<RefCell<World>>;

macro_rules! service_impl {
    ($rt:ident) => {
        struct Svc(Shared);
        impl $rt::Service for Svc {
            type MethodCall<'de> = Method;
            type ReplyParams<'ser> = Pong;
            type ReplyStream = futures_util::stream::Empty<$rt::Reply<()>>;
            type ReplyStreamParams = ();
            type ReplyError<'ser> = NoError;

            async fn handle<'ser>(
                &'ser mut self,
                call: $rt::Call<Self::MethodCall<'_>>,
            ) -> $rt::service::MethodReply<Self::ReplyParams<'ser>, Self::ReplyStream, Self::ReplyError<'ser>> {
                let Method::Ping { client, seq } = call.method();
                let key = (client.clone(), *seq);
                let todo: Vec<Value> = {
                    let mut w = self.0.borrow_mut();
                    w.order.push(key.clone());
                    w.triggers.iter().filter(|(k, _)| *k == key).flat_map(|(_, v)| v.clone()).collect()
                };
                for a in &todo {
                    self.0.borrow_mut().act(a);
                }
                $rt::service::MethodReply::Single(Some(Pong { seq: *seq }))
            }
        }
    };
}

fn setup(case: &Value, dir: &tempfile::TempDir) -> Shared {
    let mut w = World { path: dir.path().join("s.sock"), ..Default::default() };
    for t in case["triggers"].as_array().map(|v| v.as_slice()).unwrap_or(&[]) {
        let on = t["on"].as_array().unwrap();
        w.triggers.push(((on[0].as_str().unwrap().to_string(), on[1].as_u64().unwrap() as u32),
                         t["do"].as_array().unwrap().clone()));
    }
    Rc::new(RefCell::new(w))
}

fn finish(world: &Shared, server: String, timed_out: bool) -> Value {
    let mut w = world.borrow_mut();
    let mut reads = serde_json::Map::new();
    let names: Vec<String> = w.clients.keys().cloned().collect();
    for c in names {
        if let Some(Some(s)) = w.clients.get_mut(&c) {
            s.set_nonblocking(true).ok();
            let mut out = Vec::new();
            let mut buf = [0u8; 65536];
            let mut status = "open";
            loop {
                match s.read(&mut buf) {
                    Ok(0) => {
                        status = "eof";
                        break;
                    }
                    Ok(n) => out.extend_from_slice(&buf[..n]),
                    Err(e) if e.kind() == std::io::ErrorKind::WouldBlock => break,
                    Err(e) => {
                        status = if e.kind() == std::io::ErrorKind::ConnectionReset { "reset" } else { "error" };
                        break;
                    }
                }
            }
            reads.insert(c, json!({"data": hex(&out), "status": status}));
        }
    }
    json!({"order": w.order.iter().map(|(c, s)| json!([c, s])).collect::<Vec<_>>(), "reads": reads,
           "server": server, "timed_out": timed_out, "errors": w.errors})
}

mod tk {
    use super::*;
    use zlink_tokio::Listener as _;
    service_impl!(zlink_tokio);

    pub fn run(case: &Value) -> Value {
        let rt = tokio::runtime::Builder::new_current_thread().enable_all().build().unwrap();
        let local = tokio::task::LocalSet::new();
        let dir = tempfile::tempdir().unwrap();
        let world = setup(case, &dir);
        let expect = case["expect_total"].as_u64().unwrap() as usize;
        let timeout = Duration::from_millis(case["timeout_ms"].as_u64().unwrap_or(8000));
        local.block_on(&rt, async {
            let listener = zlink_tokio::unix::bind(&world.borrow().path).unwrap();
            let _ = &listener;
            for a in case["pre"].as_array().unwrap() {
                world.borrow_mut().act(a);
            }
            let server = zlink_tokio::Server::new(listener, Svc(world.clone()));
            let deadline = Instant::now() + timeout;
            let w2 = world.clone();
            let done = async move {
                let mut settled = 0;
                loop {
                    if Instant::now() > deadline {
                        return true;
                    }
                    if w2.borrow().order.len() >= expect {
                        // give the server a few more turns to write the last replies
                        settled += 1;
                        if settled > 4 {
                            return false;
                        }
                    }
                    tokio::time::sleep(Duration::from_millis(5)).await;
                }
            };
            tokio::select! {
                biased;
                r = server.run() => finish(&world, format!("ended: {:?}", r.err()), false),
                t = done => finish(&world, "running".into(), t),
            }
        })
    }
}

mod sm {
    use super::*;
    use zlink_smol::Listener as _;
    service_impl!(zlink_smol);

    pub fn run(case: &Value) -> Value {
        let dir = tempfile::tempdir().unwrap();
        let world = setup(case, &dir);
        let expect = case["expect_total"].as_u64().unwrap() as usize;
        let timeout = Duration::from_millis(case["timeout_ms"].as_u64().unwrap_or(8000));
        smol::block_on(async {
            let listener = zlink_smol::unix::bind(&world.borrow().path).unwrap();
            let _ = &listener;
            for a in case["pre"].as_array().unwrap() {
                world.borrow_mut().act(a);
            }
            let server = zlink_smol::Server::new(listener, Svc(world.clone()));
            let deadline = Instant::now() + timeout;
            let w2 = world.clone();
            let done = async move {
                let mut settled = 0;
                loop {
                    if Instant::now() > deadline {
                        return Err(true);
                    }
                    if w2.borrow().order.len() >= expect {
                        settled += 1;
                        if settled > 4 {
                            return Err(false);
                        }
                    }
                    smol::Timer::after(Duration::from_millis(5)).await;
                }
            };
            let srv = async { Ok::<String, bool>(format!("ended: {:?}", server.run().await.err())) };
            match futures_lite::future::or(srv, done).await {
                Ok(s) => finish(&world, s, false),
                Err(t) => finish(&world, "running".into(), t),
            }
        })
    }
}

fn main() {
    let stdin = std::io::stdin();
    let stdout = std::io::stdout();
    let mut w = std::io::BufWriter::new(stdout.lock());
    for line in stdin.lock().lines() {
        let line = line.unwrap();
        if line.trim().is_empty() {
            continue;
        }
        let case: Value = serde_json::from_str(&line).unwrap();
        let r = std::panic::catch_unwind(|| match case["runtime"].as_str().unwrap() {
            "tokio" => tk::run(&case),
            _ => sm::run(&case),
        });
        let mut out = match r {
            Ok(v) => v,
            Err(_) => json!({"panic": true}),
        };
        out["id"] = case["id"].clone();
        writeln!(w, "{}", out).unwrap();
        w.flush().unwrap();
    }
}
