//! Notified-state harness (C20): drives `notified::{State, Once, Stream}` of BOTH zlink-tokio and
//! zlink-smol through one operation list, poll by poll with a no-op waker and no runtime.
//! A State is Clone (a clone is another handle to the same channel with its own `value` copy):
//! the scenario keeps a vector of handles, handle 0 = State::new(0).
//! stdin: one JSON case per line `{"id":n,"ops":[["set",h,v],["get",h],["sub",h],["poll",s],
//! ["dropsub",s],["clone",h],["drophandle",h],["notify",v],["dropnotifier"],["pollonce"]]}`;
//! stdout: `{"id":n,"tokio":[[..],..],"smol":[[..],..]}` with one canonical result per operation:
//!   [1,g]      set returned; g = State::get() afterwards
//!   [2,p,v,c]  Ready(Some(reply)): p = 1 when parameters are present, v = the value,
//!              c = 0/1/2 for continues None / Some(false) / Some(true)
//!   [3] Pending   [4] Ready(None)   [5] no such object (already dropped / never created)
//!   [6] the operation panicked      [7,k] subscribed, k = index of the new subscriber
//!   [9,g]      get() returned g              [10,k] cloned, k = index of the new handle
//!   [0] done (drops, notify)
//! Every stream is polled with its OWN counting waker; "tokio_w"/"smol_w" list, per operation, the
//! subscribers whose waker was woken while the operation ran (ascending; 1000000 = the one-shot
//! stream).  A stream whose poll returned Pending relies on that wake-up to be polled again.
use serde_json::{json, Value};
use std::io::{BufRead, Write};
use std::panic::{catch_unwind, AssertUnwindSafe};
use std::pin::Pin;
use std::task::Poll;
use std::sync::atomic::{AtomicU64, Ordering};
use std::sync::Arc;
use std::task::{Context, Wake, Waker};
use zv::*;

/// Counts the calls of wake / wake_by_ref.
struct CW(AtomicU64);
impl Wake for CW {
    fn wake(self: Arc<Self>) {
        self.0.fetch_add(1, Ordering::SeqCst);
    }
    fn wake_by_ref(self: &Arc<Self>) {
        self.0.fetch_add(1, Ordering::SeqCst);
    }
}
fn new_waker() -> (Arc<CW>, Waker) {
    let c = Arc::new(CW(AtomicU64::new(0)));
    (c.clone(), Waker::from(c))
}

macro_rules! driver {
    ($name:ident, $m:path) => {
        fn $name(ops: &[Value]) -> (Vec<Vec<u64>>, Vec<Vec<u64>>) {
            use futures_util::Stream as _;
            use $m as nt;
            fn poll(s: &mut nt::Stream<u64>, w: &Waker) -> Vec<u64> {
                let mut cx = Context::from_waker(w);
                match Pin::new(s).poll_next(&mut cx) {
                    Poll::Pending => vec![3],
                    Poll::Ready(None) => vec![4],
                    Poll::Ready(Some(r)) => {
                        let c = match r.continues() {
                            None => 0,
                            Some(false) => 1,
                            Some(true) => 2,
                        };
                        match r.parameters() {
                            Some(v) => vec![2, 1, *v, c],
                            None => vec![2, 0, 0, c],
                        }
                    }
                }
            }
            let mut handles: Vec<Option<nt::State<u64, u64>>> = vec![Some(nt::State::new(0))];
            let (once, once_stream) = nt::Once::<u64>::new();
            let mut once = Some(once);
            let mut once_stream = once_stream;
            let (once_cnt, once_waker) = new_waker();
            let mut subs: Vec<Option<nt::Stream<u64>>> = Vec::new();
            let mut wakers: Vec<(Arc<CW>, Waker)> = Vec::new();
            let mut out = Vec::new();
            let mut wakes = Vec::new();
            for op in ops {
                let a = op.as_array().unwrap();
                let arg = a.get(1).and_then(|x| x.as_u64()).unwrap_or(0);
                let arg2 = a.get(2).and_then(|x| x.as_u64()).unwrap_or(0);
                let before: Vec<u64> = wakers.iter().map(|w| w.0 .0.load(Ordering::SeqCst)).collect();
                let once_before = once_cnt.0.load(Ordering::SeqCst);
                let dropped_now = if a[0].as_str() == Some("dropsub") { Some(arg as usize) } else { None };
                let r = catch_unwind(AssertUnwindSafe(|| match a[0].as_str().unwrap() {
                    "set" => match handles.get_mut(arg as usize) {
                        Some(Some(st)) => {
                            {
                                let mut fut = std::pin::pin!(st.set(arg2));
                                match poll_once(fut.as_mut()) {
                                    Poll::Ready(()) => {}
                                    Poll::Pending => return vec![3],
                                }
                            }
                            vec![1, st.get()]
                        }
                        _ => vec![5],
                    },
                    "get" => match handles.get(arg as usize) {
                        Some(Some(st)) => vec![9, st.get()],
                        _ => vec![5],
                    },
                    "sub" => match handles.get(arg as usize) {
                        Some(Some(st)) => {
                            subs.push(Some(st.stream()));
                            wakers.push(new_waker());
                            vec![7, subs.len() as u64 - 1]
                        }
                        _ => vec![5],
                    },
                    "clone" => match handles.get(arg as usize) {
                        Some(Some(st)) => {
                            let c = st.clone();
                            handles.push(Some(c));
                            vec![10, handles.len() as u64 - 1]
                        }
                        _ => vec![5],
                    },
                    "drophandle" => match handles.get_mut(arg as usize) {
                        Some(h @ Some(_)) => {
                            *h = None;
                            vec![0]
                        }
                        _ => vec![5],
                    },
                    "poll" => match subs.get_mut(arg as usize) {
                        Some(Some(s)) => poll(s, &wakers[arg as usize].1),
                        _ => vec![5],
                    },
                    "dropsub" => match subs.get_mut(arg as usize) {
                        Some(s @ Some(_)) => {
                            *s = None;
                            vec![0]
                        }
                        _ => vec![5],
                    },
                    "notify" => match once.take() {
                        Some(o) => {
                            o.notify(arg);
                            vec![0]
                        }
                        None => vec![5],
                    },
                    "dropnotifier" => match once.take() {
                        Some(o) => {
                            drop(o);
                            vec![0]
                        }
                        None => vec![5],
                    },
                    "pollonce" => poll(&mut once_stream, &once_waker),
                    x => panic!("bad op {x}"),
                }));
                out.push(r.unwrap_or_else(|_| vec![6]));
                let mut w: Vec<u64> = Vec::new();
                for (i, b) in before.iter().enumerate() {
                    if wakers[i].0 .0.load(Ordering::SeqCst) > *b && dropped_now != Some(i) {
                        w.push(i as u64);
                    }
                }
                if once_cnt.0.load(Ordering::SeqCst) > once_before {
                    w.push(1000000);
                }
                wakes.push(w);
            }
            (out, wakes)
        }
    };
}

driver!(run_tokio, zlink_tokio::notified);
driver!(run_smol, zlink_smol::notified);

fn main() {
    std::panic::set_hook(Box::new(|_| {}));
    let stdin = std::io::stdin();
    let stdout = std::io::stdout();
    let mut w = std::io::BufWriter::new(stdout.lock());
    for line in stdin.lock().lines() {
        let line = line.unwrap();
        if line.trim().is_empty() {
            continue;
        }
        let case: Value = serde_json::from_str(&line).unwrap();
        let ops = case["ops"].as_array().unwrap();
        let (t, tw) = run_tokio(ops);
        let (s, sw) = run_smol(ops);
        writeln!(
            w,
            "{}",
            json!({"id": case["id"], "tokio": t, "smol": s, "tokio_w": tw, "smol_w": sw})
        )
        .unwrap();
    }
}
