//! Borrow harness (C11): holds every item of a chain's reply stream (items borrow `&str` from the
//! connection's buffer) while obtaining later items, and re-reads all held strings after each item.
//! A global allocator that moves on every realloc and poisons (0xDD) and leaks freed byte buffers
//! makes the outcome of reading through a stale borrow deterministic.
use futures_util::StreamExt;
use serde::{Deserialize, Serialize};
use serde_json::{json, Value};
use std::alloc::{GlobalAlloc, Layout, System};
use std::io::{BufRead, Write};
use std::task::Poll;
use zlink_core::{Call, Connection, ReplyError};
use zv::*;

struct Poison;
const MIN: usize = 64;
unsafe impl GlobalAlloc for Poison {
    unsafe fn alloc(&self, l: Layout) -> *mut u8 {
        System.alloc(l)
    }
    unsafe fn dealloc(&self, p: *mut u8, l: Layout) {
        if l.align() == 1 && l.size() >= MIN {
            std::ptr::write_bytes(p, 0xDD, l.size()); // poisoned and leaked: never reused
        } else {
            System.dealloc(p, l)
        }
    }
    unsafe fn realloc(&self, p: *mut u8, l: Layout, new_size: usize) -> *mut u8 {
        if l.align() == 1 && l.size() >= MIN {
            let np = System.alloc(Layout::from_size_align_unchecked(new_size, 1));
            std::ptr::copy_nonoverlapping(p, np, l.size().min(new_size));
            std::ptr::write_bytes(p, 0xDD, l.size());
            np
        } else {
            System.realloc(p, l, new_size)
        }
    }
}
#[global_allocator]
static A: Poison = Poison;

#[derive(Debug, Serialize)]
#[serde(tag = "method", content = "parameters")]
enum Method {
    #[serde(rename = "org.example.Get")]
    Get { id: u32 },
}

#[derive(Debug, Deserialize)]
struct RPB<'a> {
    note: &'a str,
}

#[derive(Debug, ReplyError)]
#[zlink(interface = "org.example", crate = "zlink_core")]
#[allow(dead_code)]
enum RE {
    Busy,
}

fn block<F: std::future::Future>(f: F) -> Option<F::Output> {
    let mut f = std::pin::pin!(f);
    for _ in 0..1000 {
        if let Poll::Ready(r) = poll_once(f.as_mut()) {
            return Some(r);
        }
    }
    None
}

fn run_case(case: &Value) -> Value {
    // n: replies in the script; calls: calls in the chain (more than n: the stream is still owed
    // replies when the script ends with end-of-stream or with nothing more to read)
    let n = case.get("calls").and_then(|c| c.as_u64()).unwrap_or_else(|| case["n"].as_u64().unwrap()) as usize;
    let (sock, sh) = SSocket::new(parse_events(&case["events"]));
    let mut conn = Connection::new(sock);
    let calls: Vec<Call<Method>> = (0..n).map(|i| Call::new(Method::Get { id: i as u32 })).collect();
    let mut steps = Vec::new();
    let mut stuck = false;
    let mut after_drop: Value = Value::Null;
    let mut after_end: Value = Value::Null;
    let mut after_stuck: Value = Value::Null;
    // receives before the chain (their results are not held: the borrow checker forbids it)
    let pre = case.get("pre").and_then(|p| p.as_u64()).unwrap_or(0);
    'pre: for _ in 0..pre {
        let reads0 = sh.borrow().reads;
        let fut = conn.receive_reply::<RPB<'_>, RE>();
        let mut fut = std::pin::pin!(fut);
        loop {
            match poll_once(fut.as_mut()) {
                Poll::Ready(r) => {
                    let res = match r {
                        Ok(Ok(_)) => "ok".to_string(),
                        Ok(Err(_)) => "merr".to_string(),
                        Err(e) => err_name(&e),
                    };
                    steps.push(json!({"res": res, "views": Vec::<String>::new(), "data_reads": sh.borrow().data_reads,
                                      "reads": sh.borrow().reads - reads0}));
                    break;
                }
                Poll::Pending => {
                    if sh.borrow().exhausted {
                        stuck = true;
                        break 'pre;
                    }
                }
            }
        }
    }
    if !stuck {
        let mut chain = conn.chain_call::<Method, RPB<'_>, RE>(&calls[0]).unwrap();
        for c in &calls[1..] {
            chain = chain.append(c).unwrap();
        }
        let stream = block(chain.send()).unwrap().unwrap();
        let mut stream = Box::pin(stream);
        let mut held: Vec<&str> = Vec::new();
        // "take": stop after this many items and DROP the unfinished stream, then re-read what is held
        let take = case.get("take").and_then(|t| t.as_u64()).map(|t| t as usize).unwrap_or(n + 2);
        // replies that say "continues" do not finish their call: more items than calls
        let cap = case.get("items").and_then(|t| t.as_u64()).map(|t| t as usize).unwrap_or(n + 2);
        'outer: for _ in 0..take.min(cap) {
            let reads0 = sh.borrow().reads;
            loop {
                let mut nx = stream.next();
                match poll_once(std::pin::Pin::new(&mut nx)) {
                    Poll::Ready(None) => {
                        // the end of the stream (and polling a finished stream again) touches nothing
                        let v1: Vec<String> = held.iter().map(|s| hex(s.as_bytes())).collect();
                        let mut nx2 = stream.next();
                        let again = matches!(poll_once(std::pin::Pin::new(&mut nx2)), Poll::Ready(None));
                        let v2: Vec<String> = held.iter().map(|s| hex(s.as_bytes())).collect();
                        after_end = json!({"views": v1, "views_again": v2, "none_again": again,
                                           "data_reads": sh.borrow().data_reads});
                        break 'outer;
                    }
                    Poll::Ready(Some(r)) => {
                        let res = match r {
                            Ok(Ok(reply)) => match reply.into_parameters() {
                                Some(p) => {
                                    held.push(p.note);
                                    "ok".to_string()
                                }
                                None => "ok:none".to_string(),
                            },
                            Ok(Err(_)) => "merr".to_string(),
                            Err(e) => err_name(&e),
                        };
                        // re-read everything held so far through the borrows handed out earlier
                        let views: Vec<String> = held.iter().map(|s| hex(s.as_bytes())).collect();
                        // a transport read that returned data happened during this item?
                        let did_read = sh.borrow().data_reads;
                        steps.push(json!({"res": res, "views": views, "data_reads": did_read,
                                          "reads": sh.borrow().reads - reads0}));
                        break;
                    }
                    Poll::Pending => {
                        if sh.borrow().exhausted {
                            stuck = true;
                            // the transport has nothing (yet): a pending poll reads nothing
                            let v: Vec<String> = held.iter().map(|s| hex(s.as_bytes())).collect();
                            after_stuck = json!({"views": v, "data_reads": sh.borrow().data_reads});
                            break 'outer;
                        }
                    }
                }
            }
        }
        if stuck {
            // the caller gives up (time-out / select!) and drops the stream whose last poll was pending:
            // nothing was read, what is held must stay as it was
            drop(stream);
            let v: Vec<String> = held.iter().map(|s| hex(s.as_bytes())).collect();
            after_stuck["views_after_drop"] = json!(v);
        } else if take < cap {
            // the unfinished stream is dropped while earlier items are still held
            drop(stream);
            let views: Vec<String> = held.iter().map(|s| hex(s.as_bytes())).collect();
            after_drop = json!(views);
        }
    }
    json!({"id": case["id"], "steps": steps, "stuck": stuck, "after_drop": after_drop,
           "after_end": after_end, "after_stuck": after_stuck})
}

fn main() {
    let stdin = std::io::stdin();
    let stdout = std::io::stdout();
    let mut w = std::io::BufWriter::new(stdout.lock());
    for line in stdin.lock().lines() {
        let line = line.unwrap();
        if line.trim().is_empty() {
            continue;
        }
        let case: Value = serde_json::from_str(&line).unwrap();
        let r = std::panic::catch_unwind(|| run_case(&case));
        let out = match r {
            Ok(mut v) => {
                // polls that returned Pending without a pending transport and without a wake
                v["lost_wakeups"] = json!(zv::take_lost_wakeups());
                v
            }
            Err(_) => {
                zv::take_lost_wakeups();
                json!({"id": case["id"], "panic": true})
            }
        };
        writeln!(w, "{}", out).unwrap();
    }
}
