//! Server harness (C08, C09, C10, C18): drives the REAL `zlink_core::Server::run` future poll by
//! poll with a scripted listener, scripted sockets and a scripted service (no runtime).
//!
//! stdin: one JSON case per line: {"id":..,"script":[ev,..]} with events
//!   ["n",c]          NewConn c            a client connects (queued at the listener)
//!   ["lf"]           ListenerFail         the next accept fails
//!   ["a",c,"hex"]    Arrive c bytes       bytes become readable on c
//!   ["c",c]          CloseRead c          end of stream on c
//!   ["fr",c]         FailRead c           read error on c (Error::SocketRead, once)
//!   ["fr",c,kind,p]  ... Error::Io(io::Error::from(kind)); p = 1: every further read fails the same way
//!   ["deep",c,depth,open,pfirst]  Arrive: one well-framed Echo call whose `v` is nested `depth` levels deep
//!                                        (open = "[" or "{\"a\":"), "parameters" before "method" when pfirst = 1
//!   ["fw",c,k]       FailWrite c k        the k-th write call (0-based) on c fails (Error::SocketWrite)
//!   ["fw",c,k,kind]  ... with Error::Io(io::Error::from(kind)): Interrupted, WouldBlock, TimedOut, BrokenPipe,
//!                                        ConnectionReset, UnexpectedEof, Other
//!   ["si",key,v,f]   StreamItem key v f   the stream(s) named `key` get an item (f: 0 none,1 true,2 false)
//!   ["se",key]       StreamEnd key        ... get end-of-stream
//!   ["p"]            Poll                 poll the server future once
//!   ["hg",t,k]       HandleGate t k       Service::handle of the call tagged t suspends for k polls
//!   ["wp",c,j,k]     WritePend c j k      the j-th write call on c stays pending for k polls first
//! stdout: one JSON result per line: per poll the ordered trace of observable events and the
//! number of unread bytes per connection, the decode oracle for every NUL-delimited segment and
//! the reply templates (rendered by serde_json, independently of the server).
//!
//! Trace events: [1,c] accept; [2,t] service invoked with call tag t; [7,key] service created a
//! stream; [3,c,bytes..] one write call on c; [4,c] failed write call on c; [5,c] socket of c
//! dropped; [6,key] stream dropped; [8,key,1,v,f] / [8,key,0,0,0] a stream yielded an item / its end;
//! [9] the server future completed.
use futures_util::Stream;
use serde::{Deserialize, Serialize};
use serde_json::{json, Value};
use std::{
    cell::RefCell,
    collections::{BTreeMap, VecDeque},
    future::Future,
    io::{BufRead, Write},
    pin::Pin,
    rc::Rc,
    task::{Context, Poll},
};
use zlink_core::{
    connection::socket::{ReadHalf, Socket, WriteHalf},
    service::MethodReply,
    Call, Connection, Listener, Reply, Server, Service,
};
use zv::*;

type Trace = Rc<RefCell<Vec<Vec<u64>>>>;

// ---------------------------------------------------------------- logging
/// A tracing subscriber that is interested in everything and throws it all away: every log argument
/// expression of the library is evaluated on every run (as with RUST_LOG=trace in production).
struct Everything;
use zlink_core::log::tracing::{self, span};
impl tracing::Subscriber for Everything {
    fn enabled(&self, _: &tracing::Metadata<'_>) -> bool {
        true
    }
    fn new_span(&self, _: &span::Attributes<'_>) -> span::Id {
        span::Id::from_u64(1)
    }
    fn record(&self, _: &span::Id, _: &span::Record<'_>) {}
    fn record_follows_from(&self, _: &span::Id, _: &span::Id) {}
    fn event(&self, _: &tracing::Event<'_>) {}
    fn enter(&self, _: &span::Id) {}
    fn exit(&self, _: &span::Id) {}
}

// ---------------------------------------------------------------- budgets
// Every run is bounded: a server that does not return from one poll (e.g. because it keeps selecting a
// dead connection) or a case that takes too long stops the run with a panic carrying the reason; main
// reports it as {"panic":true,"why":..} and the check turns it into a VIOLATION with the case as replay.
const MAX_ITERATIONS_PER_POLL: u64 = 20_000; // accept is polled once per loop iteration
const MAX_READS_PER_POLL: u64 = 200_000; // a 100 MiB message read in 256-byte steps stays far below
const MAX_EOF_READS: u64 = 8; // a correct server reads end-of-stream once per connection
const MAX_CASE_MILLIS: u128 = 10_000;
thread_local! {
    static ITER: std::cell::Cell<u64> = const { std::cell::Cell::new(0) };
    static START: std::cell::Cell<Option<std::time::Instant>> = const { std::cell::Cell::new(None) };
}
thread_local! {
    /// suspensions of Service::handle / of a reply write in the current poll
    static GATE_PENDS: std::cell::Cell<u64> = const { std::cell::Cell::new(0) };
}
fn gate_pend() {
    GATE_PENDS.with(|g| g.set(g.get() + 1));
    note_pend();
}

fn budget_reset_case() {
    ITER.with(|i| i.set(0));
    START.with(|s| s.set(Some(std::time::Instant::now())));
}
fn budget_reset_poll() {
    ITER.with(|i| i.set(0));
}
fn budget_tick() {
    let n = ITER.with(|i| {
        i.set(i.get() + 1);
        i.get()
    });
    if n > MAX_ITERATIONS_PER_POLL {
        panic!("BUDGET: Server::run made more than {MAX_ITERATIONS_PER_POLL} loop iterations inside one poll");
    }
    if n % 256 == 0 {
        if let Some(t) = START.with(|s| s.get()) {
            if t.elapsed().as_millis() > MAX_CASE_MILLIS {
                panic!("BUDGET: the case ran for more than {MAX_CASE_MILLIS} ms");
            }
        }
    }
}

// ---------------------------------------------------------------- sockets
/// The error a scripted transport fails with: zlink's own SocketRead/SocketWrite for "", else
/// Error::Io(io::Error::from(kind)).
fn io_error(kind: &str, read: bool) -> zlink_core::Error {
    use std::io::ErrorKind as K;
    let k = match kind {
        "" => return if read { zlink_core::Error::SocketRead } else { zlink_core::Error::SocketWrite },
        "Interrupted" => K::Interrupted,
        "WouldBlock" => K::WouldBlock,
        "TimedOut" => K::TimedOut,
        "BrokenPipe" => K::BrokenPipe,
        "ConnectionReset" => K::ConnectionReset,
        "UnexpectedEof" => K::UnexpectedEof,
        _ => K::Other,
    };
    zlink_core::Error::Io(std::io::Error::from(k))
}
#[derive(Debug, Default)]
struct SockState {
    evs: VecDeque<Ev>,
    /// for every Ev::Fail in `evs`, in order: (io::ErrorKind name or "" for Error::SocketRead, persistent)
    fail_kinds: VecDeque<(String, bool)>,
    reads_this_poll: u64,
    wcnt: u64,
    wfail: Vec<u64>,
    /// io::ErrorKind of a failing write (by write index); absent = Error::SocketWrite
    wkind: BTreeMap<u64, String>,
    dropped: bool,
    eof_reads: u64,
    accepted: bool,
    /// (write index, polls to stay pending)
    wpend: Vec<(u64, u64)>,
}
type SockRef = Rc<RefCell<SockState>>;

#[derive(Debug)]
struct Sock(u64, SockRef, Trace);
#[derive(Debug)]
struct SockR(SockRef);
#[derive(Debug)]
struct SockW(u64, SockRef, Trace);

impl Socket for Sock {
    type ReadHalf = SockR;
    type WriteHalf = SockW;
    fn split(self) -> (SockR, SockW) {
        (SockR(self.1.clone()), SockW(self.0, self.1, self.2))
    }
}

impl ReadHalf for SockR {
    fn read(&mut self, buf: &mut [u8]) -> impl Future<Output = zlink_core::Result<usize>> {
        let sh = self.0.clone();
        std::future::poll_fn(move |_cx| {
            let mut s = sh.borrow_mut();
            s.reads_this_poll += 1;
            if s.reads_this_poll > MAX_READS_PER_POLL {
                panic!("BUDGET: more than {MAX_READS_PER_POLL} reads on one connection inside one poll of Server::run");
            }
            if buf.is_empty() {
                return Poll::Ready(Ok(0));
            }
            match s.evs.pop_front() {
                None => {
                    note_pend();
                    Poll::Pending
                }
                Some(Ev::Pend) => {
                    note_pend();
                    Poll::Pending
                }
                Some(Ev::Eof) => {
                    s.evs.push_front(Ev::Eof);
                    s.eof_reads += 1;
                    if s.eof_reads > MAX_EOF_READS {
                        panic!("BUDGET: the server keeps reading a dead connection (end of stream was already reported {MAX_EOF_READS} times)");
                    }
                    Poll::Ready(Ok(0))
                }
                Some(Ev::Fail) => {
                    let (kind, persistent) = s.fail_kinds.front().cloned().unwrap_or_default();
                    if persistent {
                        s.evs.push_front(Ev::Fail);
                        s.eof_reads += 1;
                        if s.eof_reads > MAX_EOF_READS {
                            panic!("BUDGET: the server keeps reading a dead connection (its read already failed {MAX_EOF_READS} times with {kind})");
                        }
                    } else {
                        s.fail_kinds.pop_front();
                    }
                    Poll::Ready(Err(io_error(&kind, true)))
                }
                Some(Ev::Data(d)) => {
                    if d.is_empty() {
                        s.evs.push_front(Ev::Data(d));
                        s.eof_reads += 1;
                        if s.eof_reads > MAX_EOF_READS {
                            panic!("BUDGET: the server keeps reading a dead connection (end of stream was already reported {MAX_EOF_READS} times)");
                        }
                        return Poll::Ready(Ok(0));
                    }
                    let n = d.len().min(buf.len());
                    buf[..n].copy_from_slice(&d[..n]);
                    if n < d.len() {
                        s.evs.push_front(Ev::Data(d[n..].to_vec()));
                    }
                    Poll::Ready(Ok(n))
                }
            }
        })
    }
}

impl WriteHalf for SockW {
    fn write(&mut self, buf: &[u8]) -> impl Future<Output = zlink_core::Result<()>> {
        let (c, sh, tr) = (self.0, self.1.clone(), self.2.clone());
        // (index of this write call, polls it still stays pending); a write future that is dropped and
        // re-created is a new write call
        let mut started: Option<(u64, u64)> = None;
        std::future::poll_fn(move |_cx| {
            let mut s = sh.borrow_mut();
            if started.is_none() {
                let k = s.wcnt;
                s.wcnt += 1;
                let pend = s.wpend.iter().find(|(j, _)| *j == k).map(|(_, n)| *n).unwrap_or(0);
                started = Some((k, pend));
            }
            let (k, pend) = started.unwrap();
            if pend > 0 {
                started = Some((k, pend - 1));
                drop(s);
                gate_pend();
                return Poll::Pending;
            }
            if s.wfail.contains(&k) {
                tr.borrow_mut().push(vec![4, c]);
                let err = match s.wkind.get(&k) {
                    None => zlink_core::Error::SocketWrite,
                    Some(kind) => io_error(kind, false),
                };
                Poll::Ready(Err(err))
            } else {
                let mut e = vec![3, c];
                e.extend(buf.iter().map(|b| *b as u64));
                tr.borrow_mut().push(e);
                Poll::Ready(Ok(()))
            }
        })
    }
}

impl Drop for SockW {
    fn drop(&mut self) {
        self.1.borrow_mut().dropped = true;
        self.2.borrow_mut().push(vec![5, self.0]);
    }
}

// ---------------------------------------------------------------- listener
#[derive(Debug)]
struct Lst {
    q: Rc<RefCell<VecDeque<Option<u64>>>>,
    socks: Rc<RefCell<BTreeMap<u64, SockRef>>>,
    trace: Trace,
}

impl Listener for Lst {
    type Socket = Sock;
    fn accept(&mut self) -> impl Future<Output = zlink_core::Result<Connection<Sock>>> {
        let (q, socks, trace) = (self.q.clone(), self.socks.clone(), self.trace.clone());
        std::future::poll_fn(move |_cx| {
            budget_tick();
            let next = q.borrow_mut().pop_front();
            match next {
                None => {
                    note_pend();
                    Poll::Pending
                }
                Some(None) => Poll::Ready(Err(zlink_core::Error::SocketRead)),
                Some(Some(c)) => {
                    let sh = socks.borrow().get(&c).unwrap().clone();
                    sh.borrow_mut().accepted = true;
                    trace.borrow_mut().push(vec![1, c]);
                    Poll::Ready(Ok(Connection::new(Sock(c, sh, trace.clone()))))
                }
            }
        })
    }
}

// ---------------------------------------------------------------- service
#[derive(Debug, Deserialize)]
#[serde(tag = "method", content = "parameters")]
enum M {
    #[serde(rename = "org.zv.Echo")]
    Echo { c: u64, t: u64, v: u64 },
    #[serde(rename = "org.zv.Ping")]
    Ping { c: u64, t: u64 },
    #[serde(rename = "org.zv.Count")]
    Count { c: u64, t: u64 },
    #[serde(rename = "org.zv.Total")]
    Total { c: u64, t: u64 },
    #[serde(rename = "org.zv.Fail")]
    Fail { c: u64, t: u64, v: u64 },
    #[serde(rename = "org.zv.Sub")]
    Sub { c: u64, t: u64 },
    /// echoes a client-provided string
    #[serde(rename = "org.zv.Say")]
    Say { c: u64, t: u64, s: String },
}

impl M {
    /// [kind, c, t, v]
    fn code(&self) -> [u64; 4] {
        match *self {
            M::Echo { c, t, v } => [0, c, t, v],
            M::Ping { c, t } => [1, c, t, 0],
            M::Count { c, t } => [2, c, t, 0],
            M::Total { c, t } => [3, c, t, 0],
            M::Fail { c, t, v } => [4, c, t, v],
            M::Sub { c, t } => [5, c, t, 0],
            M::Say { c, t, .. } => [6, c, t, 0],
        }
    }
}

#[derive(Debug, Serialize)]
struct RP {
    t: u64,
    #[serde(skip_serializing_if = "Option::is_none")]
    v: Option<u64>,
    #[serde(skip_serializing_if = "Option::is_none")]
    s: Option<String>,
}
fn rp(t: u64, v: u64) -> RP {
    RP { t, v: Some(v), s: None }
}
#[derive(Debug, Serialize)]
struct IP {
    v: u64,
}
#[derive(Debug, Serialize)]
#[serde(tag = "error", content = "parameters")]
enum SErr {
    #[serde(rename = "org.zv.Bad")]
    Bad { t: u64, v: u64 },
}

#[derive(Debug, Clone, Copy)]
enum SEv {
    Item(u64, u64),
    End,
}
type SQueue = Rc<RefCell<Vec<(u64, SEv)>>>;

/// The service's reply stream: yields the events queued for its key, Pending when there is none.
#[derive(Debug)]
struct CStream {
    key: u64,
    q: SQueue,
    trace: Trace,
    open: Open,
    /// the stream is NOT fused: polling it again after it returned None is an error of the caller
    ended: bool,
}
/// number of live reply streams per name
type Open = Rc<RefCell<BTreeMap<u64, i64>>>;

fn cont_of(f: u64) -> Option<bool> {
    match f {
        1 => Some(true),
        2 => Some(false),
        _ => None,
    }
}

impl Stream for CStream {
    type Item = Reply<IP>;
    fn poll_next(mut self: Pin<&mut Self>, _cx: &mut Context<'_>) -> Poll<Option<Reply<IP>>> {
        if self.ended {
            panic!("the reply stream {} was polled again after it had ended (it is not fused)", self.key);
        }
        let q = self.q.clone();
        let mut q = q.borrow_mut();
        match q.iter().position(|(k, _)| *k == self.key) {
            None => {
                note_pend();
                Poll::Pending
            }
            Some(i) => match q.remove(i).1 {
                SEv::Item(v, f) => {
                    self.trace.borrow_mut().push(vec![8, self.key, 1, v, f]);
                    Poll::Ready(Some(Reply::new(Some(IP { v })).set_continues(cont_of(f))))
                }
                SEv::End => {
                    self.trace.borrow_mut().push(vec![8, self.key, 0, 0, 0]);
                    self.ended = true;
                    Poll::Ready(None)
                }
            },
        }
    }
}

impl Drop for CStream {
    fn drop(&mut self) {
        *self.open.borrow_mut().entry(self.key).or_insert(0) -= 1;
        self.trace.borrow_mut().push(vec![6, self.key]);
    }
}

#[derive(Debug)]
struct Svc {
    counts: BTreeMap<u64, u64>,
    total: u64,
    q: SQueue,
    trace: Trace,
    open: Open,
    /// call tag -> number of polls `handle` suspends for
    gates: Rc<RefCell<BTreeMap<u64, u64>>>,
}

impl Service for Svc {
    type MethodCall<'de> = M;
    type ReplyParams<'ser> = RP;
    type ReplyStreamParams = IP;
    type ReplyStream = CStream;
    type ReplyError<'ser> = SErr;

    async fn handle<'ser>(
        &'ser mut self,
        call: Call<Self::MethodCall<'_>>,
    ) -> MethodReply<Self::ReplyParams<'ser>, Self::ReplyStream, Self::ReplyError<'ser>> {
        let [_, c, t, _] = call.method().code();
        self.trace.borrow_mut().push(vec![2, t]);
        // the scripted suspension of this invocation: Pending for k polls, then the answer
        let mut left = self.gates.borrow_mut().remove(&t).unwrap_or(0);
        std::future::poll_fn(|_cx| {
            if left > 0 {
                left -= 1;
                gate_pend();
                Poll::Pending
            } else {
                Poll::Ready(())
            }
        })
        .await;
        match *call.method() {
            M::Echo { t, v, .. } => MethodReply::Single(Some(rp(t, v))),
            M::Say { t, ref s, .. } => MethodReply::Single(Some(RP { t, v: None, s: Some(s.clone()) })),
            M::Ping { .. } => MethodReply::Single(None),
            M::Count { t, .. } => {
                let n = self.counts.entry(c).or_insert(0);
                *n += 1;
                MethodReply::Single(Some(rp(t, *n)))
            }
            M::Total { t, .. } => {
                self.total += 1;
                MethodReply::Single(Some(rp(t, self.total)))
            }
            M::Fail { t, v, .. } => MethodReply::Error(SErr::Bad { t, v }),
            M::Sub { .. } => {
                self.trace.borrow_mut().push(vec![7, c]);
                *self.open.borrow_mut().entry(c).or_insert(0) += 1;
                MethodReply::Multi(CStream {
                    key: c,
                    q: self.q.clone(),
                    trace: self.trace.clone(),
                    open: self.open.clone(),
                    ended: false,
                })
            }
        }
    }
}

// ---------------------------------------------------------------- oracles
/// Decoded call as [kind, c, t, v, oneway, more]; for Say, v is the index of the string in `strs`.
/// Whether the frame decodes, and to which method, is what `Call<M>`'s own deserializer says (the frame
/// in isolation); the FLAGS are read from the frame as a plain JSON value, independently of
/// zlink's call/de.rs: the last `"oneway"` / `"more"` member of the object, absent = false.
fn decode_oracle(seg: &[u8], strs: &mut Vec<String>) -> Value {
    let flag = |name: &str| -> u64 {
        serde_json::from_slice::<Value>(seg)
            .ok()
            .and_then(|v| v.get(name).and_then(|f| f.as_bool()))
            .unwrap_or(false) as u64
    };
    // a JSON document is UTF-8 text (RFC 8259 8.1)
    if std::str::from_utf8(seg).is_err() {
        return Value::Null;
    }
    match serde_json::from_slice::<Call<M>>(seg) {
        Ok(call) => {
            let [k, c, t, mut v] = call.method().code();
            if let M::Say { s, .. } = call.method() {
                v = match strs.iter().position(|x| x == s) {
                    Some(i) => i as u64,
                    None => {
                        strs.push(s.clone());
                        (strs.len() - 1) as u64
                    }
                };
            }
            json!([k, c, t, v, flag("oneway"), flag("more")])
        }
        Err(_) => Value::Null,
    }
}

/// Split the reference rendering of a message containing the sentinels at the sentinels.
fn template(bytes: Vec<u8>, sentinels: &[&str]) -> Value {
    let s = String::from_utf8(bytes).unwrap();
    let mut parts = Vec::new();
    let mut rest = s.as_str();
    for sen in sentinels {
        let i = rest.find(sen).expect("sentinel");
        parts.push(hex(rest[..i].as_bytes()));
        rest = &rest[i + sen.len()..];
    }
    parts.push(hex(rest.as_bytes()));
    json!(parts)
}

fn templates() -> Value {
    const A: u64 = 1111111;
    const B: u64 = 2222222;
    let single = serde_json::to_vec(&Reply::new(Some(rp(A, B))).set_continues(Some(false)));
    let say = serde_json::to_vec(
        &Reply::new(Some(RP { t: A, v: None, s: Some("@@S@@".into()) })).set_continues(Some(false)),
    );
    let ping = serde_json::to_vec(&Reply::<RP>::new(None).set_continues(Some(false)));
    let error = serde_json::to_vec(&SErr::Bad { t: A, v: B });
    let item = |f| serde_json::to_vec(&Reply::new(Some(IP { v: B })).set_continues(cont_of(f)));
    json!({
        "single": template(single.unwrap(), &["1111111", "2222222"]),
        "ping": template(ping.unwrap(), &[]),
        "error": template(error.unwrap(), &["1111111", "2222222"]),
        "item0": template(item(0).unwrap(), &["2222222"]),
        "item1": template(item(1).unwrap(), &["2222222"]),
        "item2": template(item(2).unwrap(), &["2222222"]),
        "say": template(say.unwrap(), &["1111111", "\"@@S@@\""]),
    })
}

// ---------------------------------------------------------------- driver
fn run_case(case: &Value) -> Value {
    let trace: Trace = Rc::new(RefCell::new(Vec::new()));
    let socks: Rc<RefCell<BTreeMap<u64, SockRef>>> = Rc::new(RefCell::new(BTreeMap::new()));
    let accq = Rc::new(RefCell::new(VecDeque::new()));
    let squeue: SQueue = Rc::new(RefCell::new(Vec::new()));
    let mut known: Vec<u64> = Vec::new();
    let open: Open = Rc::new(RefCell::new(BTreeMap::new()));
    let gates: Rc<RefCell<BTreeMap<u64, u64>>> = Rc::new(RefCell::new(BTreeMap::new()));
    let mut payloads: BTreeMap<u64, Vec<u8>> = BTreeMap::new();

    let listener = Lst {
        q: accq.clone(),
        socks: socks.clone(),
        trace: trace.clone(),
    };
    let svc = Svc {
        counts: BTreeMap::new(),
        total: 0,
        q: squeue.clone(),
        trace: trace.clone(),
        open: open.clone(),
        gates: gates.clone(),
    };
    let mut fut = Some(Box::pin(Server::new(listener, svc).run()));
    let mut sleeps: Vec<String> = Vec::new();
    let mut polls = Vec::new();
    let mut exited = false;

    let num = |v: &Value| v.as_u64().unwrap();
    for ev in case["script"].as_array().unwrap() {
        let a = ev.as_array().unwrap();
        let sock = |i: usize| socks.borrow().get(&num(&a[i])).cloned();
        match a[0].as_str().unwrap() {
            "n" => {
                let c = num(&a[1]);
                if !known.contains(&c) {
                    known.push(c);
                    socks.borrow_mut().insert(c, Rc::new(RefCell::new(SockState::default())));
                    accq.borrow_mut().push_back(Some(c));
                }
            }
            "lf" => accq.borrow_mut().push_back(None),
            "a" => {
                if let Some(s) = sock(1) {
                    let d = unhex(a[2].as_str().unwrap());
                    payloads.entry(num(&a[1])).or_default().extend_from_slice(&d);
                    s.borrow_mut().evs.push_back(Ev::Data(d));
                }
            }
            "deep" => {
                if let Some(s) = sock(1) {
                    let (c, depth) = (num(&a[1]), num(&a[2]) as usize);
                    let open = a[3].as_str().unwrap();
                    let close = if open.starts_with('[') { "]" } else { "}" };
                    let v = format!("{}1{}", open.repeat(depth), close.repeat(depth));
                    let params = format!("\"parameters\":{{\"c\":{c},\"t\":999999,\"v\":{v}}}");
                    let method = "\"method\":\"org.zv.Echo\"";
                    let frame = if num(&a[4]) == 1 {
                        format!("{{{params},{method}}}")
                    } else {
                        format!("{{{method},{params}}}")
                    };
                    let mut d = frame.into_bytes();
                    d.push(0);
                    payloads.entry(c).or_default().extend_from_slice(&d);
                    s.borrow_mut().evs.push_back(Ev::Data(d));
                }
            }
            "c" => {
                if let Some(s) = sock(1) {
                    s.borrow_mut().evs.push_back(Ev::Eof);
                }
            }
            "fr" => {
                if let Some(s) = sock(1) {
                    let kind = a.get(2).and_then(|k| k.as_str()).unwrap_or("").to_string();
                    let persistent = a.get(3).and_then(|p| p.as_u64()).unwrap_or(0) == 1;
                    let mut s = s.borrow_mut();
                    s.evs.push_back(Ev::Fail);
                    s.fail_kinds.push_back((kind, persistent));
                }
            }
            "fw" => {
                if let Some(s) = sock(1) {
                    s.borrow_mut().wfail.push(num(&a[2]));
                    if let Some(kind) = a.get(3).and_then(|k| k.as_str()) {
                        s.borrow_mut().wkind.insert(num(&a[2]), kind.to_string());
                    }
                }
            }
            "hg" => {
                gates.borrow_mut().insert(num(&a[1]), num(&a[2]));
            }
            "wp" => {
                if let Some(s) = sock(1) {
                    s.borrow_mut().wpend.push((num(&a[2]), num(&a[3])));
                }
            }
            "si" => squeue.borrow_mut().push((num(&a[1]), SEv::Item(num(&a[2]), num(&a[3])))),
            "se" => squeue.borrow_mut().push((num(&a[1]), SEv::End)),
            "p" => {
                budget_reset_poll();
                for sk in socks.borrow().values() {
                    sk.borrow_mut().reads_this_poll = 0;
                }
                GATE_PENDS.with(|g| g.set(0));
                let mut pending = false;
                if let Some(f) = fut.as_mut() {
                    match poll_once(f.as_mut()) {
                        Poll::Ready(_r) => {
                            exited = true;
                            fut = None;
                            trace.borrow_mut().push(vec![9]);
                        }
                        Poll::Pending => pending = true,
                    }
                }
                // The server went to sleep (Pending, not suspended in the service or in a write): nothing
                // it could act on may be immediately available -- a connection waiting at the listener,
                // unread input on a connection that is taking calls, an event of an open reply stream.
                if pending && GATE_PENDS.with(|g| g.get()) == 0 {
                    if !accq.borrow().is_empty() {
                        sleeps.push(format!("poll {}: a connection is waiting at the listener", polls.len()));
                    }
                    for (c, sk) in socks.borrow().iter() {
                        let sk = sk.borrow();
                        let parked = open.borrow().get(c).copied().unwrap_or(0) > 0;
                        if sk.accepted && !sk.dropped && !parked && !sk.evs.is_empty() {
                            sleeps.push(format!("poll {}: connection {} has unread input", polls.len(), c));
                        }
                    }
                    for (k, n) in open.borrow().iter() {
                        if *n > 0 && squeue.borrow().iter().any(|(key, _)| key == k) {
                            sleeps.push(format!("poll {}: reply stream {} has an event ready", polls.len(), k));
                        }
                    }
                }
                let tr: Vec<Vec<u64>> = std::mem::take(&mut *trace.borrow_mut());
                let snap: Vec<u64> = known
                    .iter()
                    .map(|c| {
                        let socks = socks.borrow();
                        let s = socks[c].borrow();
                        if s.dropped {
                            return 0;
                        }
                        s.evs
                            .iter()
                            .map(|e| match e {
                                Ev::Data(d) => d.len() as u64,
                                _ => 0,
                            })
                            .sum()
                    })
                    .collect();
                polls.push(json!({"tr": tr, "snap": snap}));
            }
            x => panic!("bad event {x}"),
        }
    }
    // dropping the still-pending server future is not part of the observation
    let before = trace.borrow().len();
    drop(fut);
    trace.borrow_mut().truncate(before);

    let mut segs = serde_json::Map::new();
    let mut strs: Vec<String> = Vec::new();
    for p in payloads.values() {
        for seg in p.split(|b| *b == 0) {
            if seg.len() > 65536 {
                continue; // no oracle for huge frames (production-limit classes compare runs with each other)
            }
            let k = hex(seg);
            if !segs.contains_key(&k) {
                segs.insert(k, decode_oracle(seg, &mut strs));
            }
        }
    }
    // the echoed strings as serde_json renders them (with the quotes)
    let strs: Vec<String> = strs.iter().map(|x| hex(&serde_json::to_vec(x).unwrap())).collect();
    json!({"id": case["id"], "polls": polls, "exited": exited, "segs": segs, "strs": strs,
           "tmpl": templates(), "sleeps": sleeps, "lost_wakeups": take_lost_wakeups()})
}

fn main() {
    // panics (of the server under test, or budget stops) are results, reported on stdout; nothing is
    // written to stderr, which the driver merges into the same pipe
    std::panic::set_hook(Box::new(|_| {}));
    // `server notrace` runs without a subscriber (logging disabled): the results must be the same
    if !std::env::args().any(|a| a == "notrace") {
        tracing::subscriber::set_global_default(Everything).unwrap();
    }
    let stdin = std::io::stdin();
    let stdout = std::io::stdout();
    let mut w = std::io::BufWriter::new(stdout.lock());
    for line in stdin.lock().lines() {
        let line = line.unwrap();
        if line.trim().is_empty() {
            continue;
        }
        let case: Value = serde_json::from_str(&line).unwrap();
        budget_reset_case();
        let r = std::panic::catch_unwind(|| run_case(&case));
        let out = match r {
            Ok(v) => v,
            Err(e) => {
                let why = e
                    .downcast_ref::<String>()
                    .cloned()
                    .or_else(|| e.downcast_ref::<&str>().map(|x| x.to_string()))
                    .unwrap_or_default();
                json!({"id": case["id"], "panic": true, "why": why})
            }
        };
        writeln!(w, "{}", out).unwrap();
    }
}
