//! Send-side harness (C02, C17 outbound): runs enqueue/send/flush histories on a real
//! `Connection` over a capturing scripted socket.
//! stdin: one JSON case per line; stdout: one JSON result per line.
use serde::Serialize;
use serde_json::{json, Value};
use std::collections::BTreeMap;
use std::io::{BufRead, Write};
use std::task::Poll;
use zlink_core::{Call, Connection, Reply, ReplyError};
use zv::*;

#[derive(Debug, Serialize)]
#[serde(tag = "method", content = "parameters")]
enum Method {
    #[serde(rename = "org.example.Put")]
    Put { name: String, value: i64 },
    #[serde(rename = "org.example.Ping")]
    Ping,
    // serialisation hits a non-string map key after `name`
    #[serde(rename = "org.example.Bad")]
    Bad { name: String, m: BTreeMap<bool, u32>, tail: String },
    // a float as the last member (number formatting needs no more room than the digits it writes)
    #[serde(rename = "org.example.Level")]
    Level { name: String, level: f64 },
    // serialisation is refused by the value itself (a custom serde error) after `name`
    #[serde(rename = "org.example.Fail")]
    Fail { name: String, bad: Failing, tail: String },
}

/// A value whose `Serialize` impl refuses (like a `SystemTime` before the epoch, a non-UTF-8 path,
/// a borrowed `RefCell`): the serializer has to report that error, whatever room is left.
#[derive(Debug)]
struct Failing;
impl Serialize for Failing {
    fn serialize<S: serde::Serializer>(&self, _s: S) -> Result<S::Ok, S::Error> {
        Err(serde::ser::Error::custom("refused by the value"))
    }
}

/// Number of bytes of the encoding that precede the refusing value, computed WITHOUT the zlink
/// serializer: serde_json's encoding of the same call with a marker string in its place.
fn fail_prefix_len(name: &str, oneway: bool, more: bool) -> u64 {
    #[derive(Serialize)]
    #[serde(tag = "method", content = "parameters")]
    enum Twin<'a> {
        #[serde(rename = "org.example.Fail")]
        Fail { name: &'a str, bad: &'a str, tail: &'a str },
    }
    let mut c = Call::new(Twin::Fail { name, bad: "\u{1}MARK", tail: "" });
    if oneway {
        c = c.set_oneway(true);
    }
    if more {
        c = c.set_more(true);
    }
    let v = serde_json::to_vec(&c).unwrap();
    let pat = b"\"\\u0001MARK\"";
    v.windows(pat.len()).position(|w| w == pat).expect("marker") as u64
}

#[derive(Debug, Serialize)]
struct Params {
    text: String,
    n: u32,
}

#[derive(Debug, Serialize)]
struct BadParams {
    text: String,
    inner: Vec<BTreeMap<Option<u8>, u32>>,
}

#[derive(Debug, ReplyError)]
#[zlink(interface = "org.example", crate = "zlink_core")]
enum RE {
    NotFound { what: String },
    Busy,
}

enum Msg {
    Call(Call<Method>),
    Reply(Reply<Params>),
    BadReply(Reply<BadParams>),
    Error(RE),
}

fn filler(seed: u64, n: usize) -> String {
    // printable, includes characters that need escaping
    let alphabet: Vec<char> = "abcXYZ019 _-\"\\\n\u{e9}\u{1F600}/\u{0}\u{1f}\u{7f}".chars().collect();
    let mut x = seed.wrapping_mul(6364136223846793005).wrapping_add(1442695040888963407);
    let mut s = String::new();
    while s.len() < n {
        x = x.wrapping_mul(6364136223846793005).wrapping_add(1442695040888963407);
        let c = alphabet[((x >> 33) as usize) % alphabet.len()];
        if s.len() + c.len_utf8() + if c == '"' || c == '\\' || c == '\n' { 1 } else if (c as u32) < 0x20 { 5 } else { 0 } <= n + 3 {
            s.push(c);
        } else {
            s.push('a');
        }
    }
    s
}

fn mk_msg(spec: &Value) -> Msg {
    let kind = spec["kind"].as_str().unwrap();
    let size = spec["size"].as_u64().unwrap_or(0) as usize;
    let seed = spec["seed"].as_u64().unwrap_or(0);
    let plain = spec.get("plain").and_then(|v| v.as_bool()).unwrap_or(false);
    let text = if plain { "x".repeat(size) } else { filler(seed, size) };
    match kind {
        "call" => {
            let mut c = Call::new(Method::Put { name: text, value: seed as i64 - 50 });
            match seed % 4 {
                1 => c = c.set_oneway(true),
                2 => c = c.set_more(true),
                _ => {}
            }
            Msg::Call(c)
        }
        "ping" => Msg::Call(Call::new(Method::Ping)),
        "fcall" => {
            let levels = [1.5, 0.0, -2.25, 1e300, 123456789.125, 5e-324, -0.0, 3.0];
            let mut c = Call::new(Method::Level { name: text, level: levels[(seed % 8) as usize] });
            if seed % 4 == 2 {
                c = c.set_more(true);
            }
            Msg::Call(c)
        }
        "failcall" => {
            let mut c = Call::new(Method::Fail { name: text, bad: Failing, tail: "t".repeat((seed % 300) as usize) });
            match seed % 4 {
                1 => c = c.set_oneway(true),
                2 => c = c.set_more(true),
                _ => {}
            }
            Msg::Call(c)
        }
        "badcall" => {
            let mut m = BTreeMap::new();
            m.insert(true, 1);
            Msg::Call(Call::new(Method::Bad { name: text, m, tail: "t".repeat((seed % 300) as usize) }))
        }
        "reply" => {
            let r = Reply::new(Some(Params { text, n: seed as u32 }));
            Msg::Reply(if seed % 3 == 0 { r.set_continues(Some(seed % 2 == 0)) } else { r })
        }
        "badreply" => {
            let mut m = BTreeMap::new();
            m.insert(Some(1u8), 2);
            Msg::BadReply(Reply::new(Some(BadParams { text, inner: vec![BTreeMap::new(), m] })))
        }
        "error" => Msg::Error(RE::NotFound { what: text }),
        "busy" => Msg::Error(RE::Busy),
        k => panic!("bad kind {k}"),
    }
}

/// Oracle for the abstract message: serde_json's bytes, or the number of bytes after which the
/// zlink serializer reports the key error (smallest buffer size that does not yield TooSmall).
fn oracle(m: &Msg) -> Value {
    fn good<T: Serialize>(v: &T) -> Option<Vec<u8>> {
        // a message is "bad" when the zlink serializer refuses it even with ample room
        let mut big = vec![0u8; 65536];
        match zlink_core::verif::to_slice(v, &mut big) {
            Err(zlink_core::verif::SerError::KeyMustBeAString) => None,
            _ => serde_json::to_vec(v).ok(),
        }
    }
    fn badk<T: Serialize>(v: &T) -> u64 {
        let mut buf = vec![0u8; 16384];
        let mut lo = 0usize;
        // the result is monotone in the size: TooSmall below k, KeyErr from k on
        let mut hi = buf.len();
        while lo < hi {
            let mid = (lo + hi) / 2;
            match zlink_core::verif::to_slice(v, &mut buf[..mid]) {
                Err(zlink_core::verif::SerError::BufferTooSmall) => lo = mid + 1,
                _ => hi = mid,
            }
        }
        lo as u64
    }
    if let Msg::Call(c) = m {
        if let Method::Fail { name, .. } = c.method() {
            // independent of the serializer under test
            return json!({"bad": fail_prefix_len(name, c.oneway(), c.more()), "indep": true,
                          "impl_k": badk(c)});
        }
    }
    let g = match m {
        Msg::Call(c) => good(c).ok_or_else(|| badk(c)),
        Msg::Reply(r) => good(r).ok_or_else(|| badk(r)),
        Msg::BadReply(r) => good(r).ok_or_else(|| badk(r)),
        Msg::Error(e) => good(e).ok_or_else(|| badk(e)),
    };
    match g {
        Ok(bs) => json!({"good": hex(&bs)}),
        Err(k) => json!({"bad": k}),
    }
}

fn res_name(r: &zlink_core::Result<()>) -> String {
    match r {
        Ok(()) => "ok".into(),
        Err(e) => err_name(e),
    }
}

fn block<F: std::future::Future>(f: F) -> Option<F::Output> {
    let mut f = std::pin::pin!(f);
    for _ in 0..1000 {
        if let Poll::Ready(r) = poll_once(f.as_mut()) {
            return Some(r);
        }
    }
    None
}

fn run_case(case: &Value) -> Value {
    let (sock, sh) = SSocket::new(Default::default());
    for a in case["wscript"].as_array().map(|v| v.as_slice()).unwrap_or(&[]) {
        sh.borrow_mut().wacts.push_back(if a.as_bool().unwrap() { WAct::Accept } else { WAct::Fail });
    }
    let mut conn = Connection::new(sock);
    let mut ops = Vec::new();
    let mut oracles = Vec::new();
    for op in case["ops"].as_array().unwrap() {
        let a = op.as_array().unwrap();
        let (p0, c0) = conn.write().verif_state();
        let kind = a[0].as_str().unwrap();
        let r = match kind {
            "flush" => {
                oracles.push(Value::Null);
                res_name(&block(conn.flush()).expect("flush pending"))
            }
            // split the connection into its halves and join them again: the write queue is untouched
            "rejoin" => {
                oracles.push(Value::Null);
                let (r, w) = conn.split();
                conn = Connection::join(r, w);
                "ok".into()
            }
            // the chain entry point shares the queue: starting a chain enqueues its first call
            // ("cenq": the chain is then abandoned; "csend": it is sent, i.e. enqueue + flush)
            "cenq" | "csend" => {
                let m = mk_msg(&a[1]);
                oracles.push(oracle(&m));
                let Msg::Call(c) = &m else { panic!("chain ops take calls") };
                match conn.chain_call::<Method, serde_json::Value, RE>(c) {
                    Err(e) => err_name(&e),
                    Ok(chain) if kind == "cenq" => {
                        drop(chain);
                        "ok".into()
                    }
                    Ok(chain) => match block(chain.send()).expect("chain send pending") {
                        Ok(stream) => {
                            drop(stream);
                            "ok".into()
                        }
                        Err(e) => err_name(&e),
                    },
                }
            }
            "enq" | "send" => {
                let m = mk_msg(&a[1]);
                oracles.push(oracle(&m));
                match (&m, kind) {
                    (Msg::Call(c), "enq") => res_name(&conn.enqueue_call(c)),
                    (Msg::Call(c), _) => res_name(&block(conn.send_call(c)).unwrap()),
                    (Msg::Reply(r), _) => res_name(&block(conn.send_reply(r)).unwrap()),
                    (Msg::BadReply(r), _) => res_name(&block(conn.send_reply(r)).unwrap()),
                    (Msg::Error(e), _) => res_name(&block(conn.send_error(e)).unwrap()),
                }
            }
            k => panic!("bad op {k}"),
        };
        let (p1, c1) = conn.write().verif_state();
        ops.push(json!({"res": r, "st": [c1, p1], "before": [c0, p0]}));
    }
    let writes: Vec<String> = sh.borrow().writes.iter().map(|w| hex(w)).collect();
    json!({"id": case["id"], "ops": ops, "writes": writes, "oracles": oracles,
           "limits": [zlink_core::verif::LIMITS.0, zlink_core::verif::LIMITS.1]})
}

fn main() {
    let stdin = std::io::stdin();
    let stdout = std::io::stdout();
    let mut w = std::io::BufWriter::new(stdout.lock());
    for line in stdin.lock().lines() {
        let line = line.unwrap();
        if line.trim().is_empty() {
            continue;
        }
        let case: Value = serde_json::from_str(&line).unwrap();
        let r = std::panic::catch_unwind(|| run_case(&case));
        let out = match r {
            Ok(mut v) => {
                // polls that returned Pending without a pending transport and without a wake
                v["lost_wakeups"] = json!(zv::take_lost_wakeups());
                v
            }
            Err(_) => {
                zv::take_lost_wakeups();
                json!({"id": case["id"], "panic": true})
            }
        };
        writeln!(w, "{}", out).unwrap();
    }
}
