//! Envelope harness (C04, C05): feeds reply / call frames through the real crates and reports the
//! outcome in a canonical form (small enums + decoded values as canonical trees + digest of the
//! Debug rendering).
//!
//! stdin: one JSON case per line, stdout: one JSON result per line with the same "id".
//!   {"id":..,"op":"reply","p":<parameter type>,"e":<error type>,"frame":<json text>}
//!       -> receive_reply::<P,E>, call_method::<_,P,E>, serde_json::from_str of the three untagged
//!          alternatives separately, and the re-encoding (serde_json::to_string) of what decoded
//!   {"id":..,"op":"call","m":<method type>,"frame":<json text>}
//!       -> serde_json::from_str::<Call<M>>, receive_call::<M>, re-encoding of the decoded call,
//!          what send_call puts on the wire for it, and (owned method types) the same text through
//!          serde_json::from_value and serde_json::from_reader
//!   {"id":..,"op":"proxy","meth":<proxy method>,"frame":<json text>}
//!       -> result of the generated proxy method on a connection whose peer answers with the frame
//!   {"id":..,"op":"build_call","m":<method type>,"frame":<json of the METHOD value>,
//!    "ctor":"new"|"from"|"into","ops":[["oneway"|"more"|"upgrade",bool],..]}
//!       -> the call made by that constructor and those setters IN THAT ORDER: what the getters say,
//!          serde_json::to_string of it and what send_call writes
//!   {"id":..,"op":"build_reply","p":<parameter type>,"frame":<json of the parameters>|null,
//!    "ctor":"new_some"|"new_none"|"from"|"into","ops":[true|false|null,..]}   (set_continues, in order)
//!       -> the same for Reply<P>, sent with send_reply
//!
//! Canonical tree of a decoded value (rendered to a Coq `rval` by lib/envgen.py):
//!   "u" unit | {"b":bool} | {"i":"<decimal>"} | {"s":"<hex of utf-8>"} | {"o":[]} / {"o":[x]}
//!   | {"l":[..]} | {"r":[fields in declaration order]} | {"v":<variant index>,"f":[fields]}
//!   | {"j":<serde_json::Value>}
use serde::{Deserialize, Serialize};
use serde_json::{json, Value};
use std::collections::VecDeque;
use std::io::{BufRead, Write};
use std::task::Poll;
use zlink_core::{proxy, varlink_service, Call, Connection, Reply, ReplyError};
use zv::*;

// ------------------------------------------------------------------------------------------------
// canonical trees

trait Canon {
    fn canon(&self) -> Value;
}
impl Canon for () {
    fn canon(&self) -> Value {
        json!("u")
    }
}
impl Canon for bool {
    fn canon(&self) -> Value {
        json!({ "b": *self })
    }
}
macro_rules! canon_int {
    ($($t:ty),*) => {$(
        impl Canon for $t {
            fn canon(&self) -> Value {
                json!({ "i": self.to_string() })
            }
        }
    )*};
}
canon_int!(u8, u32, u64, i32, i64);
impl Canon for String {
    fn canon(&self) -> Value {
        json!({ "s": hex(self.as_bytes()) })
    }
}
impl Canon for &str {
    fn canon(&self) -> Value {
        json!({ "s": hex(self.as_bytes()) })
    }
}
impl<T: Canon> Canon for Option<T> {
    fn canon(&self) -> Value {
        match self {
            None => json!({"o": []}),
            Some(x) => json!({"o": [x.canon()]}),
        }
    }
}
impl<T: Canon> Canon for &T {
    fn canon(&self) -> Value {
        (**self).canon()
    }
}
impl<T: Canon> Canon for Vec<T> {
    fn canon(&self) -> Value {
        json!({"l": self.iter().map(|x| x.canon()).collect::<Vec<_>>()})
    }
}
impl Canon for Value {
    fn canon(&self) -> Value {
        json!({"j": self.clone()})
    }
}
macro_rules! canon_struct {
    ($t:ty; $($f:ident),*) => {
        impl Canon for $t {
            fn canon(&self) -> Value {
                json!({"r": [ $( self.$f.canon() ),* ]})
            }
        }
    };
}
fn var(i: usize, f: Vec<Value>) -> Value {
    json!({"v": i, "f": f})
}

// ------------------------------------------------------------------------------------------------
// parameter types

#[derive(Debug, Serialize, Deserialize)]
struct AllOpt {
    a: Option<u32>,
    b: Option<String>,
}
canon_struct!(AllOpt; a, b);

#[derive(Debug, Serialize, Deserialize)]
struct Strict {
    id: u32,
    name: String,
}
canon_struct!(Strict; id, name);

#[derive(Debug, Serialize, Deserialize)]
struct Leaf {
    x: i64,
}
canon_struct!(Leaf; x);

#[derive(Debug, Serialize, Deserialize)]
struct Nested {
    leaf: Option<Leaf>,
    flag: bool,
}
canon_struct!(Nested; leaf, flag);
type OptNested = Option<Nested>;

#[derive(Debug, Serialize, Deserialize)]
struct Borrowed<'a> {
    name: &'a str,
    n: u8,
}
canon_struct!(Borrowed<'_>; name, n);

#[derive(Debug, Serialize, Deserialize)]
struct Listy {
    items: Vec<i32>,
}
canon_struct!(Listy; items);

// ------------------------------------------------------------------------------------------------
// error types (ReplyError derive)

#[derive(Debug, ReplyError)]
#[zlink(interface = "org.example.E", crate = "zlink_core")]
enum Simple {
    NotFound,
    Busy,
    Invalid { field: String, code: i32 },
}
impl Canon for Simple {
    fn canon(&self) -> Value {
        match self {
            Simple::NotFound => var(0, vec![]),
            Simple::Busy => var(1, vec![]),
            Simple::Invalid { field, code } => var(2, vec![field.canon(), code.canon()]),
        }
    }
}

#[derive(Debug, ReplyError)]
#[zlink(interface = "com.example.Ren", crate = "zlink_core")]
enum Renamed<'a> {
    Plain,
    Named {
        #[zlink(rename = "actualName")]
        name: &'a str,
        #[zlink(rename = "errorCode")]
        code: i32,
        #[zlink(rename = "optionalData")]
        opt: Option<&'a str>,
    },
    Timeout {
        seconds: u32,
    },
}
impl Canon for Renamed<'_> {
    fn canon(&self) -> Value {
        match self {
            Renamed::Plain => var(0, vec![]),
            Renamed::Named { name, code, opt } => {
                var(1, vec![name.canon(), code.canon(), opt.canon()])
            }
            Renamed::Timeout { seconds } => var(2, vec![seconds.canon()]),
        }
    }
}

#[derive(Debug, ReplyError)]
#[zlink(interface = "org.example.Opts", crate = "zlink_core")]
enum Opts {
    Detail { a: Option<u32>, b: Option<bool> },
    Gone,
}
impl Canon for Opts {
    fn canon(&self) -> Value {
        match self {
            Opts::Detail { a, b } => var(0, vec![a.canon(), b.canon()]),
            Opts::Gone => var(1, vec![]),
        }
    }
}

#[derive(Debug, ReplyError)]
#[zlink(interface = "org.example.Empty", crate = "zlink_core")]
enum Empty {}
impl Canon for Empty {
    fn canon(&self) -> Value {
        match *self {}
    }
}

/// Declares names of the standard interface itself: the standard decoder has priority.
#[derive(Debug, ReplyError)]
#[zlink(interface = "org.varlink.service", crate = "zlink_core")]
enum Shadow {
    PermissionDenied,
    Custom { why: String },
}
impl Canon for Shadow {
    fn canon(&self) -> Value {
        match self {
            Shadow::PermissionDenied => var(0, vec![]),
            Shadow::Custom { why } => var(1, vec![why.canon()]),
        }
    }
}

/// The options of one field spread over several `zlink` attributes, `rename` in the first, in a later
/// one, and next to another key (the derive skips keys it does not know: utils.rs parse_zlink_string_attr).
#[derive(Debug, ReplyError)]
#[zlink(interface = "org.example.Spread", crate = "zlink_core")]
enum Spread {
    Quota {
        #[zlink(since = "1.2")]
        #[zlink(rename = "maxBytes")]
        max_bytes: u32,
        #[zlink(rename = "usedBytes")]
        #[zlink(since = "2")]
        used_bytes: u32,
        #[zlink(since = "1", rename = "fileName")]
        file_name: String,
    },
    Busy,
}
impl Canon for Spread {
    fn canon(&self) -> Value {
        match self {
            Spread::Quota { max_bytes, used_bytes, file_name } => {
                var(0, vec![max_bytes.canon(), used_bytes.canon(), file_name.canon()])
            }
            Spread::Busy => var(1, vec![]),
        }
    }
}

/// Fields named with raw identifiers, with and without `#[zlink(rename)]`; variants written as raw
/// identifiers (`r#Typed` and `Typed` are the same identifier to rustc, a proc macro sees "r#Typed").
#[derive(Debug, ReplyError)]
#[zlink(interface = "org.example.Raw", crate = "zlink_core")]
enum Raw<'a> {
    r#Typed {
        r#type: String,
        count: u32,
    },
    Matched {
        #[zlink(rename = "match")]
        r#match: i32,
        r#ref: Option<&'a str>,
    },
    r#Loop,
    Renamed {
        #[zlink(rename = "in")]
        r#in: bool,
    },
    /// A struct variant without fields: no `parameters` on the wire, like a unit variant.
    Hollow {},
}
impl Canon for Raw<'_> {
    fn canon(&self) -> Value {
        match self {
            Raw::Typed { r#type, count } => var(0, vec![r#type.canon(), count.canon()]),
            Raw::Matched { r#match, r#ref } => var(1, vec![r#match.canon(), r#ref.canon()]),
            Raw::Loop => var(2, vec![]),
            Raw::Renamed { r#in } => var(3, vec![r#in.canon()]),
            Raw::Hollow {} => var(4, vec![]),
        }
    }
}

impl Canon for varlink_service::Error {
    fn canon(&self) -> Value {
        use varlink_service::Error as E;
        match self {
            E::InterfaceNotFound { interface } => var(0, vec![interface.canon()]),
            E::MethodNotFound { method } => var(1, vec![method.canon()]),
            E::MethodNotImplemented { method } => var(2, vec![method.canon()]),
            E::InvalidParameter { parameter } => var(3, vec![parameter.canon()]),
            E::PermissionDenied => var(4, vec![]),
            E::ExpectedMore => var(5, vec![]),
        }
    }
}

// ------------------------------------------------------------------------------------------------
// method types

#[derive(Debug, Serialize, Deserialize)]
#[serde(tag = "method", content = "parameters")]
enum Meth {
    #[serde(rename = "org.example.M.Ping")]
    Ping,
    #[serde(rename = "org.example.M.Get")]
    Get { id: u32 },
    #[serde(rename = "org.example.M.Put")]
    Put {
        name: String,
        value: i64,
        note: Option<String>,
    },
}
impl Canon for Meth {
    fn canon(&self) -> Value {
        match self {
            Meth::Ping => var(0, vec![]),
            Meth::Get { id } => var(1, vec![id.canon()]),
            Meth::Put { name, value, note } => {
                var(2, vec![name.canon(), value.canon(), note.canon()])
            }
        }
    }
}

#[derive(Debug, Serialize, Deserialize)]
#[serde(tag = "method", content = "parameters")]
enum MethB<'a> {
    #[serde(rename = "org.example.M.Put")]
    Put { name: &'a str, value: i64 },
    #[serde(rename = "org.example.M.Ping")]
    Ping,
}
impl Canon for MethB<'_> {
    fn canon(&self) -> Value {
        match self {
            MethB::Put { name, value } => var(0, vec![name.canon(), value.canon()]),
            MethB::Ping => var(1, vec![]),
        }
    }
}

#[derive(Debug, Serialize, Deserialize)]
struct MethS {
    method: String,
    parameters: Option<Strict>,
}
canon_struct!(MethS; method, parameters);

/// A method type whose OWN members are near misses of the flag names.
#[derive(Debug, Serialize, Deserialize)]
struct MethN {
    method: String,
    #[serde(rename = "More")]
    more_cap: Option<bool>,
    #[serde(rename = "ONEWAY")]
    oneway_up: Option<String>,
    #[serde(rename = "upgrade_")]
    upgrade_tail: Option<i64>,
    #[serde(rename = "mor")]
    mor: Option<bool>,
}
canon_struct!(MethN; method, more_cap, oneway_up, upgrade_tail, mor);

impl Canon for varlink_service::Method<'_> {
    fn canon(&self) -> Value {
        use varlink_service::Method as M;
        match self {
            M::GetInfo => var(0, vec![]),
            M::GetInterfaceDescription { interface } => var(1, vec![interface.canon()]),
        }
    }
}

// ------------------------------------------------------------------------------------------------
// proxy traits (unit and typed outputs)

#[proxy(interface = "org.example.P", crate = "zlink_core")]
trait PProxy {
    async fn ping(&mut self) -> zlink_core::Result<Result<(), Simple>>;
    async fn stop(&mut self) -> zlink_core::Result<Result<(), Empty>>;
    async fn fetch(&mut self, id: u32) -> zlink_core::Result<Result<Strict, Simple>>;
    async fn look(&mut self) -> zlink_core::Result<Result<AllOpt, Opts>>;
    #[zlink(more)]
    async fn watch(
        &mut self,
    ) -> zlink_core::Result<impl futures_util::Stream<Item = zlink_core::Result<Result<(), Simple>>>>;
}

// ------------------------------------------------------------------------------------------------
// drivers

fn events_for(frame: &str) -> VecDeque<Ev> {
    let mut b = frame.as_bytes().to_vec();
    b.push(0);
    VecDeque::from(vec![Ev::Data(b), Ev::Eof])
}

/// Drive a future to completion on the scripted socket (which never stays pending unless the script
/// is exhausted).
fn drive<F: std::future::Future>(fut: F, sh: &Shared) -> Option<F::Output> {
    let mut fut = std::pin::pin!(fut);
    for _ in 0..10_000 {
        match poll_once(fut.as_mut()) {
            Poll::Ready(r) => return Some(r),
            Poll::Pending => {
                if sh.borrow().exhausted {
                    return None;
                }
            }
        }
    }
    None
}

fn dbg<T: std::fmt::Debug>(x: &T) -> String {
    digest(&format!("{:?}", x))
}

fn outcome<P: Canon + std::fmt::Debug, E: Canon + std::fmt::Debug>(
    r: Option<zlink_core::Result<zlink_core::reply::Result<P, E>>>,
) -> Value {
    match r {
        None => json!({"k": "stuck"}),
        Some(Ok(Ok(rep))) => json!({"k": "ok", "dbg": dbg(&rep),
            "v": {"r": [rep.parameters().canon(), rep.continues().canon()]}}),
        Some(Ok(Err(e))) => json!({"k": "merr", "v": e.canon(), "dbg": dbg(&e)}),
        Some(Err(zlink_core::Error::VarlinkService(e))) => {
            json!({"k": "vs", "v": e.canon(), "dbg": dbg(&e)})
        }
        Some(Err(e)) => json!({"k": "err", "e": err_name(&e)}),
    }
}

macro_rules! reply_case {
    ($frame:expr, $P:ty, $E:ty) => {{
        let frame: &str = $frame;
        let mut out = serde_json::Map::new();
        // receive_reply on a real connection
        {
            let (sock, sh) = SSocket::new(events_for(frame));
            let mut c = Connection::new(sock);
            let r = drive(c.receive_reply::<$P, $E>(), &sh);
            out.insert("recv".into(), outcome(r));
        }
        // call_method on a real connection
        {
            let (sock, sh) = SSocket::new(events_for(frame));
            let mut c = Connection::new(sock);
            let call = Call::new(Meth::Ping);
            let r = drive(c.call_method::<_, $P, $E>(&call), &sh);
            out.insert("call".into(), outcome(r));
        }
        // the three alternatives decoded directly, and their re-encodings
        out.insert(
            "d_vs".into(),
            match serde_json::from_str::<varlink_service::Error>(frame) {
                Ok(e) => json!({"v": e.canon(), "enc": serde_json::to_string(&e).unwrap()}),
                Err(_) => Value::Null,
            },
        );
        out.insert(
            "d_err".into(),
            match serde_json::from_str::<$E>(frame) {
                Ok(e) => {
                    // what send_error puts on the wire for the decoded error
                    let (sock, sh) = SSocket::new(VecDeque::new());
                    let mut conn = Connection::new(sock);
                    let sent = drive(conn.send_error(&e), &sh);
                    let wire: Vec<u8> = sh.borrow().writes.concat();
                    json!({"v": e.canon(), "enc": serde_json::to_string(&e).unwrap(),
                           "wire": match sent { Some(Ok(())) => Some(String::from_utf8_lossy(&wire).into_owned()), _ => None }})
                }
                Err(_) => Value::Null,
            },
        );
        out.insert(
            "d_rep".into(),
            match serde_json::from_str::<Reply<$P>>(frame) {
                Ok(r) => json!({"v": {"r": [r.parameters().canon(), r.continues().canon()]},
                                "enc": serde_json::to_string(&r).unwrap()}),
                Err(_) => Value::Null,
            },
        );
        Value::Object(out)
    }};
}

macro_rules! reply_e {
    ($frame:expr, $e:expr, $P:ty) => {
        match $e {
            "simple" => reply_case!($frame, $P, Simple),
            "renamed" => reply_case!($frame, $P, Renamed),
            "opts" => reply_case!($frame, $P, Opts),
            "empty" => reply_case!($frame, $P, Empty),
            "shadow" => reply_case!($frame, $P, Shadow),
            "raw" => reply_case!($frame, $P, Raw),
            "spread" => reply_case!($frame, $P, Spread),
            x => panic!("unknown error type {x}"),
        }
    };
}

fn run_reply(case: &Value) -> Value {
    let frame = case["frame"].as_str().unwrap();
    let e = case["e"].as_str().unwrap();
    match case["p"].as_str().unwrap() {
        "unit" => reply_e!(frame, e, ()),
        "allopt" => reply_e!(frame, e, AllOpt),
        "strict" => reply_e!(frame, e, Strict),
        "value" => reply_e!(frame, e, Value),
        "optnested" => reply_e!(frame, e, OptNested),
        "borrowed" => reply_e!(frame, e, Borrowed),
        "listy" => reply_e!(frame, e, Listy),
        x => panic!("unknown parameter type {x}"),
    }
}

macro_rules! call_case {
    ($frame:expr, $M:ty) => {{
        let frame: &str = $frame;
        let mut out = serde_json::Map::new();
        match serde_json::from_str::<Call<$M>>(frame) {
            Ok(c) => {
                let canon = json!({"r": [c.method().canon(), c.oneway().canon(),
                                         c.more().canon(), c.upgrade().canon()]});
                out.insert("dec".into(), json!({"v": canon, "dbg": dbg(&c)}));
                out.insert(
                    "enc".into(),
                    match serde_json::to_string(&c) {
                        Ok(s) => Value::String(s),
                        Err(_) => Value::Null,
                    },
                );
                // what send_call writes for the decoded call
                let (sock, sh) = SSocket::new(VecDeque::new());
                let mut conn = Connection::new(sock);
                let sent = drive(conn.send_call(&c), &sh);
                let wire: Vec<u8> = sh.borrow().writes.concat();
                out.insert(
                    "wire".into(),
                    match sent {
                        Some(Ok(())) => Value::String(String::from_utf8_lossy(&wire).into_owned()),
                        _ => Value::Null,
                    },
                );
            }
            Err(_) => {
                out.insert("dec".into(), Value::Null);
            }
        }
        {
            let (sock, sh) = SSocket::new(events_for(frame));
            let mut conn = Connection::new(sock);
            let r = drive(conn.receive_call::<$M>(), &sh);
            out.insert(
                "recv".into(),
                match r {
                    Some(Ok(c)) => json!({"v": {"r": [c.method().canon(), c.oneway().canon(),
                                                     c.more().canon(), c.upgrade().canon()]}}),
                    _ => Value::Null,
                },
            );
        }
        Value::Object(out)
    }};
}

/// For method types that own their data: the same text decoded through the deserializers that
/// never lend member names out of the input (`serde_json::from_value` on the parsed text,
/// `serde_json::from_reader`).  Must agree with `from_str`.
macro_rules! call_owned {
    ($frame:expr, $M:ty) => {{
        let frame: &str = $frame;
        let mut out = call_case!(frame, $M);
        let canon = |c: &Call<$M>| {
            json!({"r": [c.method().canon(), c.oneway().canon(), c.more().canon(), c.upgrade().canon()]})
        };
        out["fv"] = match serde_json::from_str::<Value>(frame) {
            Ok(v) => match serde_json::from_value::<Call<$M>>(v) {
                Ok(c) => json!({ "v": canon(&c) }),
                Err(_) => Value::Null,
            },
            Err(_) => Value::Null,
        };
        out["fr"] = match serde_json::from_reader::<_, Call<$M>>(frame.as_bytes()) {
            Ok(c) => json!({ "v": canon(&c) }),
            Err(_) => Value::Null,
        };
        out["owned"] = Value::Bool(true);
        out
    }};
}

fn run_call(case: &Value) -> Value {
    let frame = case["frame"].as_str().unwrap();
    match case["m"].as_str().unwrap() {
        "meth" => call_owned!(frame, Meth),
        "methb" => call_case!(frame, MethB),
        "meths" => call_owned!(frame, MethS),
        "methn" => call_owned!(frame, MethN),
        "value" => call_owned!(frame, Value),
        "vsmethod" => call_case!(frame, varlink_service::Method),
        x => panic!("unknown method type {x}"),
    }
}

fn pout<T: Canon, E: Canon + std::fmt::Debug>(
    r: Option<zlink_core::Result<Result<T, E>>>,
) -> Value {
    match r {
        None => json!({"k": "stuck"}),
        Some(Ok(Ok(v))) => json!({"k": "ok", "v": v.canon()}),
        Some(Ok(Err(e))) => json!({"k": "merr", "v": e.canon(), "dbg": dbg(&e)}),
        Some(Err(zlink_core::Error::VarlinkService(e))) => json!({"k": "vs", "v": e.canon()}),
        Some(Err(zlink_core::Error::MissingParameters)) => json!({"k": "missing"}),
        Some(Err(e)) => json!({"k": "err", "e": err_name(&e)}),
    }
}

fn run_proxy(case: &Value) -> Value {
    let frame = case["frame"].as_str().unwrap();
    let (sock, sh) = SSocket::new(events_for(frame));
    let mut conn = Connection::new(sock);
    let res = match case["meth"].as_str().unwrap() {
        "ping" => pout(drive(conn.ping(), &sh)),
        "stop" => pout(drive(conn.stop(), &sh)),
        "fetch" => pout(drive(conn.fetch(7), &sh)),
        "look" => pout(drive(conn.look(), &sh)),
        "watch" => {
            use futures_util::StreamExt;
            let fut = async {
                match conn.watch().await {
                    Ok(stream) => {
                        let mut stream = std::pin::pin!(stream);
                        match stream.next().await {
                            Some(item) => item,
                            None => Err(zlink_core::Error::UnexpectedEof),
                        }
                    }
                    Err(e) => Err(e),
                }
            };
            pout(drive(fut, &sh))
        }
        x => panic!("unknown proxy method {x}"),
    };
    let wire: Vec<u8> = sh.borrow().writes.concat();
    json!({"res": res, "wire": String::from_utf8_lossy(&wire)})
}

// ------------------------------------------------------------------------------------------------
// values made with the public constructors and setters (the wire image must depend on the logical
// value only, not on how it was built)

macro_rules! build_call_case {
    ($case:expr, $M:ty) => {{
        let case: &Value = $case;
        let frame = case["frame"].as_str().unwrap();
        match serde_json::from_str::<$M>(frame) {
            Err(_) => json!({"built": false}),
            Ok(m) => {
                let meth = m.canon();
                let mut c: Call<$M> = match case["ctor"].as_str().unwrap() {
                    "new" => Call::new(m),
                    "from" => Call::from(m),
                    "into" => m.into(),
                    x => panic!("unknown ctor {x}"),
                };
                for op in case["ops"].as_array().unwrap() {
                    let v = op[1].as_bool().unwrap();
                    c = match op[0].as_str().unwrap() {
                        "oneway" => c.set_oneway(v),
                        "more" => c.set_more(v),
                        "upgrade" => c.set_upgrade(v),
                        x => panic!("unknown setter {x}"),
                    };
                }
                let (sock, sh) = SSocket::new(VecDeque::new());
                let mut conn = Connection::new(sock);
                let sent = drive(conn.send_call(&c), &sh);
                let wire: Vec<u8> = sh.borrow().writes.concat();
                json!({"built": true, "meth": meth, "same_meth": c.method().canon() == meth,
                       "get": [c.oneway(), c.more(), c.upgrade()],
                       "enc": serde_json::to_string(&c).ok(),
                       "wire": match sent { Some(Ok(())) => Some(String::from_utf8_lossy(&wire).into_owned()), _ => None },
                       "dbg": dbg(&c)})
            }
        }
    }};
}

fn run_build_call(case: &Value) -> Value {
    match case["m"].as_str().unwrap() {
        "meth" => build_call_case!(case, Meth),
        "methb" => build_call_case!(case, MethB),
        "meths" => build_call_case!(case, MethS),
        "methn" => build_call_case!(case, MethN),
        "value" => build_call_case!(case, Value),
        "vsmethod" => build_call_case!(case, varlink_service::Method),
        x => panic!("unknown method type {x}"),
    }
}

fn apply_continues<P>(mut r: Reply<P>, ops: &Value) -> Reply<P> {
    for op in ops.as_array().unwrap() {
        r = r.set_continues(op.as_bool());
    }
    r
}

macro_rules! build_reply_case {
    ($case:expr, $P:ty) => {{
        let case: &Value = $case;
        let ctor = case["ctor"].as_str().unwrap();
        let text = case["frame"].as_str().unwrap_or("null");
        let built: Option<Reply<$P>> = if ctor == "new_none" {
            Some(Reply::new(None))
        } else {
            match serde_json::from_str::<$P>(text) {
                Err(_) => None,
                Ok(p) => Some(match ctor {
                    "new_some" => Reply::new(Some(p)),
                    "from" => Reply::from(p),
                    "into" => p.into(),
                    x => panic!("unknown ctor {x}"),
                }),
            }
        };
        match built {
            None => json!({"built": false}),
            Some(r) => {
                let r = apply_continues(r, &case["ops"]);
                let (sock, sh) = SSocket::new(VecDeque::new());
                let mut conn = Connection::new(sock);
                let sent = drive(conn.send_reply(&r), &sh);
                let wire: Vec<u8> = sh.borrow().writes.concat();
                json!({"built": true, "params": r.parameters().canon(), "continues": r.continues().canon(),
                       "enc": serde_json::to_string(&r).ok(),
                       "wire": match sent { Some(Ok(())) => Some(String::from_utf8_lossy(&wire).into_owned()), _ => None },
                       "dbg": dbg(&r)})
            }
        }
    }};
}

fn run_build_reply(case: &Value) -> Value {
    match case["p"].as_str().unwrap() {
        "unit" => build_reply_case!(case, ()),
        "allopt" => build_reply_case!(case, AllOpt),
        "strict" => build_reply_case!(case, Strict),
        "value" => build_reply_case!(case, Value),
        "optnested" => build_reply_case!(case, OptNested),
        "borrowed" => build_reply_case!(case, Borrowed),
        "listy" => build_reply_case!(case, Listy),
        x => panic!("unknown parameter type {x}"),
    }
}

fn run_case(case: &Value) -> Value {
    let mut out = match case["op"].as_str().unwrap() {
        "reply" => run_reply(case),
        "call" => run_call(case),
        "proxy" => run_proxy(case),
        "build_call" => run_build_call(case),
        "build_reply" => run_build_reply(case),
        x => panic!("unknown op {x}"),
    };
    out["id"] = case["id"].clone();
    out
}

fn main() {
    std::panic::set_hook(Box::new(|_| {}));
    let stdin = std::io::stdin();
    let stdout = std::io::stdout();
    let mut w = std::io::BufWriter::new(stdout.lock());
    for line in stdin.lock().lines() {
        let line = line.unwrap();
        if line.trim().is_empty() {
            continue;
        }
        let case: Value = serde_json::from_str(&line).unwrap();
        let r = std::panic::catch_unwind(|| run_case(&case));
        let out = match r {
            Ok(v) => v,
            Err(_) => json!({"id": case["id"], "panic": true}),
        };
        writeln!(w, "{}", out).unwrap();
    }
}
