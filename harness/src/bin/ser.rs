//! Serializer harness (C03): runs zlink's built-in JSON serializer (`zlink_core::verif::to_slice`
//! and the public send path) and serde_json on the same trees of serde `Serializer` calls.
//! stdin: one JSON case per line; stdout: one JSON result per line with the same "id".
//!
//! A tree case:  {"id":..,"v":<tree>,"sweep":"all"|"boundary","send":[pad,..]|null,"cont":null|bool}
//! A sweep case: {"id":..,"job":"unicode"|"pairs"|"ints16"|"intswide"|"f32"|"f64", ..range/seed..}
use serde::ser::{
    SerializeMap, SerializeSeq, SerializeStruct, SerializeStructVariant, SerializeTuple,
    SerializeTupleStruct, SerializeTupleVariant,
};
use serde::{Serialize, Serializer};
use serde_json::{json, Value};
use std::cell::RefCell;
use std::collections::HashMap;
use std::io::{BufRead, Write};
use std::task::Poll;
use zlink_core::verif::{to_slice, SerError};
use zlink_core::{Call, Connection, Reply};
use zv::*;

thread_local! {
    static NAMES: RefCell<HashMap<String, &'static str>> = RefCell::new(HashMap::new());
}

/// `&'static str` names for the serde entry points (interned, so the leak is bounded).
fn leak(s: &str) -> &'static str {
    NAMES.with(|m| {
        let mut m = m.borrow_mut();
        if let Some(x) = m.get(s) {
            return *x;
        }
        let l: &'static str = Box::leak(s.to_string().into_boxed_str());
        m.insert(s.to_string(), l);
        l
    })
}

/// Mirror of the Coq type `sval`: one variant per `Serializer` entry point.
#[derive(Debug, Clone)]
enum SVal {
    Bool(bool),
    I8(i8),
    I16(i16),
    I32(i32),
    I64(i64),
    I128(i128),
    U8(u8),
    U16(u16),
    U32(u32),
    U64(u64),
    U128(u128),
    F32(f32),
    F64(f64),
    Char(char),
    Str(String),
    Bytes(Vec<u8>),
    None,
    Some(Box<SVal>),
    Unit,
    UnitStruct(&'static str),
    UnitVariant(&'static str, u32, &'static str),
    NewtypeStruct(&'static str, Box<SVal>),
    NewtypeVariant(&'static str, u32, &'static str, Box<SVal>),
    Seq(Option<usize>, Vec<SVal>),
    Tuple(usize, Vec<SVal>),
    TupleStruct(&'static str, usize, Vec<SVal>),
    TupleVariant(&'static str, u32, &'static str, usize, Vec<SVal>),
    Map(Option<usize>, Vec<(SVal, SVal)>),
    Struct(&'static str, usize, Vec<(&'static str, SVal)>),
    StructVariant(&'static str, u32, &'static str, usize, Vec<(&'static str, SVal)>),
    /// `serializer.collect_str(&d)` where `d`'s Display writes these fragments, one write_str each
    CollectStr(Vec<String>),
    /// a Serialize impl that asks `serializer.is_human_readable()` and issues the first tree of
    /// calls when the answer is true, the second otherwise
    HumanReadable(Box<SVal>, Box<SVal>),
    /// the std::net types, whose serde impls consult `is_human_readable()`
    Net(NetVal),
    /// a `serde_json::Value` (free-form parameters), serialized by serde_json's own Serialize impl
    /// for Value / Number / Map
    Json(Value),
}

/// Build a `serde_json::Value` from its structural encoding (lib/sergen.py):
/// null | ["jb",bool] | ["ju","u64"] | ["ji","negative i64"] | ["jf","f64 bits"] | ["js",hex]
/// | ["ja",[v..]] | ["jo",[[keyhex,v]..]]  (object members inserted in this order)
fn jparse(v: &Value) -> Value {
    if v.is_null() {
        return Value::Null;
    }
    let a = v.as_array().unwrap();
    match a[0].as_str().unwrap() {
        "jb" => Value::Bool(a[1].as_bool().unwrap()),
        "ju" => Value::Number(serde_json::Number::from(a[1].as_str().unwrap().parse::<u64>().unwrap())),
        "ji" => Value::Number(serde_json::Number::from(a[1].as_str().unwrap().parse::<i64>().unwrap())),
        "jf" => {
            let f = f64::from_bits(a[1].as_str().unwrap().parse::<u64>().unwrap());
            Value::Number(serde_json::Number::from_f64(f).expect("generator sends finite floats only"))
        }
        "js" => Value::String(hstr(&a[1])),
        "ja" => Value::Array(a[1].as_array().unwrap().iter().map(jparse).collect()),
        "jo" => {
            let mut m = serde_json::Map::new();
            for kv in a[1].as_array().unwrap() {
                m.insert(hstr(&kv[0]), jparse(&kv[1]));
            }
            Value::Object(m)
        }
        t => panic!("bad json tag {t}"),
    }
}

fn junparse(v: &Value) -> Value {
    match v {
        Value::Null => Value::Null,
        Value::Bool(b) => json!(["jb", b]),
        Value::Number(n) => {
            if let Some(u) = n.as_u64() {
                json!(["ju", u.to_string()])
            } else if let Some(i) = n.as_i64() {
                json!(["ji", i.to_string()])
            } else {
                json!(["jf", n.as_f64().unwrap_or(0.0).to_bits().to_string()])
            }
        }
        Value::String(s) => json!(["js", hex(s.as_bytes())]),
        Value::Array(a) => json!(["ja", a.iter().map(junparse).collect::<Vec<_>>()]),
        Value::Object(m) => json!(["jo", m.iter().map(|(k, x)| json!([hex(k.as_bytes()), junparse(x)])).collect::<Vec<_>>()]),
    }
}

/// float texts of the f64 numbers inside a Value (same token table as SVal::F64)
fn json_float_tokens(v: &Value, out: &mut serde_json::Map<String, Value>) {
    match v {
        Value::Number(n) if n.as_u64().is_none() && n.as_i64().is_none() => {
            if let Some(f) = n.as_f64() {
                out.insert(format!("f64:{}", f.to_bits()), Value::String(hex(&serde_json::to_vec(&f).unwrap())));
            }
        }
        Value::Array(a) => a.iter().for_each(|x| json_float_tokens(x, out)),
        Value::Object(m) => m.values().for_each(|x| json_float_tokens(x, out)),
        _ => {}
    }
}

#[derive(Debug, Clone)]
enum NetVal {
    V4(std::net::Ipv4Addr),
    V6(std::net::Ipv6Addr),
    Ip(std::net::IpAddr),
    Sock(std::net::SocketAddr),
}

impl NetVal {
    fn text(&self) -> String {
        match self {
            NetVal::V4(a) => a.to_string(),
            NetVal::V6(a) => a.to_string(),
            NetVal::Ip(a) => a.to_string(),
            NetVal::Sock(a) => a.to_string(),
        }
    }
    /// (kind, address octets, port)
    fn parts(&self) -> (&'static str, Vec<u8>, u16) {
        use std::net::{IpAddr, SocketAddr};
        match self {
            NetVal::V4(a) => ("v4", a.octets().to_vec(), 0),
            NetVal::V6(a) => ("v6", a.octets().to_vec(), 0),
            NetVal::Ip(IpAddr::V4(a)) => ("ip4", a.octets().to_vec(), 0),
            NetVal::Ip(IpAddr::V6(a)) => ("ip6", a.octets().to_vec(), 0),
            NetVal::Sock(SocketAddr::V4(a)) => ("sa4", a.ip().octets().to_vec(), a.port()),
            NetVal::Sock(SocketAddr::V6(a)) => ("sa6", a.ip().octets().to_vec(), a.port()),
        }
    }
    fn make(kind: &str, oct: &[u8], port: u16) -> NetVal {
        use std::net::{IpAddr, Ipv4Addr, Ipv6Addr, SocketAddr};
        let v4 = || Ipv4Addr::new(oct[0], oct[1], oct[2], oct[3]);
        let v6 = || Ipv6Addr::from(<[u8; 16]>::try_from(oct).unwrap());
        match kind {
            "v4" => NetVal::V4(v4()),
            "v6" => NetVal::V6(v6()),
            "ip4" => NetVal::Ip(IpAddr::V4(v4())),
            "ip6" => NetVal::Ip(IpAddr::V6(v6())),
            "sa4" => NetVal::Sock(SocketAddr::new(IpAddr::V4(v4()), port)),
            "sa6" => NetVal::Sock(SocketAddr::new(IpAddr::V6(v6()), port)),
            k => panic!("bad net kind {k}"),
        }
    }
}

/// Display that hands its text to the formatter in the given pieces.
struct Frags<'a>(&'a [String]);
impl std::fmt::Display for Frags<'_> {
    fn fmt(&self, f: &mut std::fmt::Formatter<'_>) -> std::fmt::Result {
        for s in self.0 {
            f.write_str(s)?;
        }
        Ok(())
    }
}

impl Serialize for SVal {
    fn serialize<S: Serializer>(&self, ser: S) -> Result<S::Ok, S::Error> {
        match self {
            SVal::Bool(b) => ser.serialize_bool(*b),
            SVal::I8(x) => ser.serialize_i8(*x),
            SVal::I16(x) => ser.serialize_i16(*x),
            SVal::I32(x) => ser.serialize_i32(*x),
            SVal::I64(x) => ser.serialize_i64(*x),
            SVal::I128(x) => ser.serialize_i128(*x),
            SVal::U8(x) => ser.serialize_u8(*x),
            SVal::U16(x) => ser.serialize_u16(*x),
            SVal::U32(x) => ser.serialize_u32(*x),
            SVal::U64(x) => ser.serialize_u64(*x),
            SVal::U128(x) => ser.serialize_u128(*x),
            SVal::F32(x) => ser.serialize_f32(*x),
            SVal::F64(x) => ser.serialize_f64(*x),
            SVal::Char(c) => ser.serialize_char(*c),
            SVal::Str(s) => ser.serialize_str(s),
            SVal::Bytes(b) => ser.serialize_bytes(b),
            SVal::None => ser.serialize_none(),
            SVal::Some(v) => ser.serialize_some(&**v),
            SVal::Unit => ser.serialize_unit(),
            SVal::UnitStruct(n) => ser.serialize_unit_struct(n),
            SVal::UnitVariant(n, i, v) => ser.serialize_unit_variant(n, *i, v),
            SVal::NewtypeStruct(n, v) => ser.serialize_newtype_struct(n, &**v),
            SVal::NewtypeVariant(n, i, var, v) => ser.serialize_newtype_variant(n, *i, var, &**v),
            SVal::Seq(len, es) => {
                let mut s = ser.serialize_seq(*len)?;
                for e in es {
                    s.serialize_element(e)?;
                }
                s.end()
            }
            SVal::Tuple(len, es) => {
                let mut s = ser.serialize_tuple(*len)?;
                for e in es {
                    s.serialize_element(e)?;
                }
                s.end()
            }
            SVal::TupleStruct(n, len, es) => {
                let mut s = ser.serialize_tuple_struct(n, *len)?;
                for e in es {
                    s.serialize_field(e)?;
                }
                s.end()
            }
            SVal::TupleVariant(n, i, var, len, es) => {
                let mut s = ser.serialize_tuple_variant(n, *i, var, *len)?;
                for e in es {
                    s.serialize_field(e)?;
                }
                s.end()
            }
            SVal::Map(len, kvs) => {
                let mut s = ser.serialize_map(*len)?;
                for (k, v) in kvs {
                    s.serialize_entry(k, v)?;
                }
                s.end()
            }
            SVal::Struct(n, len, fs) => {
                let mut s = ser.serialize_struct(n, *len)?;
                for (k, v) in fs {
                    s.serialize_field(k, v)?;
                }
                s.end()
            }
            SVal::StructVariant(n, i, var, len, fs) => {
                let mut s = ser.serialize_struct_variant(n, *i, var, *len)?;
                for (k, v) in fs {
                    s.serialize_field(k, v)?;
                }
                s.end()
            }
            SVal::CollectStr(frags) => ser.collect_str(&Frags(frags)),
            SVal::HumanReadable(hr, compact) => {
                if ser.is_human_readable() {
                    hr.serialize(ser)
                } else {
                    compact.serialize(ser)
                }
            }
            SVal::Net(NetVal::V4(a)) => a.serialize(ser),
            SVal::Net(NetVal::V6(a)) => a.serialize(ser),
            SVal::Net(NetVal::Ip(a)) => a.serialize(ser),
            SVal::Net(NetVal::Sock(a)) => a.serialize(ser),
            SVal::Json(v) => v.serialize(ser),
        }
    }
}

fn hstr(v: &Value) -> String {
    String::from_utf8(unhex(v.as_str().unwrap())).expect("harness strings are valid UTF-8")
}
fn hname(v: &Value) -> &'static str {
    leak(&hstr(v))
}
fn us(v: &Value) -> usize {
    v.as_u64().unwrap() as usize
}
fn olen(v: &Value) -> Option<usize> {
    if v.is_null() {
        None
    } else {
        Some(us(v))
    }
}

/// Parse the compact tree encoding (see lib/sergen.py).
fn parse(v: &Value) -> SVal {
    let a = v.as_array().unwrap();
    let list = |x: &Value| -> Vec<SVal> { x.as_array().unwrap().iter().map(parse).collect() };
    let flds = |x: &Value| -> Vec<(&'static str, SVal)> {
        x.as_array()
            .unwrap()
            .iter()
            .map(|kv| (hname(&kv[0]), parse(&kv[1])))
            .collect()
    };
    match a[0].as_str().unwrap() {
        "b" => SVal::Bool(a[1].as_bool().unwrap()),
        "i" => {
            let s = a[2].as_str().unwrap();
            match a[1].as_str().unwrap() {
                "i8" => SVal::I8(s.parse().unwrap()),
                "i16" => SVal::I16(s.parse().unwrap()),
                "i32" => SVal::I32(s.parse().unwrap()),
                "i64" => SVal::I64(s.parse().unwrap()),
                "i128" => SVal::I128(s.parse().unwrap()),
                "u8" => SVal::U8(s.parse().unwrap()),
                "u16" => SVal::U16(s.parse().unwrap()),
                "u32" => SVal::U32(s.parse().unwrap()),
                "u64" => SVal::U64(s.parse().unwrap()),
                "u128" => SVal::U128(s.parse().unwrap()),
                k => panic!("bad int kind {k}"),
            }
        }
        "f32" => SVal::F32(f32::from_bits(a[1].as_u64().unwrap() as u32)),
        "f64" => SVal::F64(f64::from_bits(a[1].as_str().unwrap().parse::<u64>().unwrap())),
        "c" => SVal::Char(char::from_u32(a[1].as_u64().unwrap() as u32).unwrap()),
        "s" => SVal::Str(hstr(&a[1])),
        "y" => SVal::Bytes(unhex(a[1].as_str().unwrap())),
        "none" => SVal::None,
        "some" => SVal::Some(Box::new(parse(&a[1]))),
        "unit" => SVal::Unit,
        "us" => SVal::UnitStruct(hname(&a[1])),
        "uv" => SVal::UnitVariant(hname(&a[1]), us(&a[2]) as u32, hname(&a[3])),
        "ns" => SVal::NewtypeStruct(hname(&a[1]), Box::new(parse(&a[2]))),
        "nv" => SVal::NewtypeVariant(hname(&a[1]), us(&a[2]) as u32, hname(&a[3]), Box::new(parse(&a[4]))),
        "seq" => SVal::Seq(olen(&a[1]), list(&a[2])),
        "tup" => SVal::Tuple(us(&a[1]), list(&a[2])),
        "ts" => SVal::TupleStruct(hname(&a[1]), us(&a[2]), list(&a[3])),
        "tv" => SVal::TupleVariant(hname(&a[1]), us(&a[2]) as u32, hname(&a[3]), us(&a[4]), list(&a[5])),
        "map" => SVal::Map(
            olen(&a[1]),
            a[2].as_array()
                .unwrap()
                .iter()
                .map(|kv| (parse(&kv[0]), parse(&kv[1])))
                .collect(),
        ),
        "st" => SVal::Struct(hname(&a[1]), us(&a[2]), flds(&a[3])),
        "sv" => SVal::StructVariant(hname(&a[1]), us(&a[2]) as u32, hname(&a[3]), us(&a[4]), flds(&a[5])),
        "cs" => SVal::CollectStr(a[1].as_array().unwrap().iter().map(hstr).collect()),
        "hr" => SVal::HumanReadable(Box::new(parse(&a[1])), Box::new(parse(&a[2]))),
        "json" => SVal::Json(jparse(&a[1])),
        "net" => SVal::Net(NetVal::make(
            a[1].as_str().unwrap(),
            &unhex(a[2].as_str().unwrap()),
            us(&a[3]) as u16,
        )),
        t => panic!("bad tree tag {t}"),
    }
}

/// The same encoding, for failing inputs found by the built-in sweeps.
fn unparse(v: &SVal) -> Value {
    let hx = |s: &str| Value::String(hex(s.as_bytes()));
    let list = |es: &Vec<SVal>| Value::Array(es.iter().map(unparse).collect());
    let flds = |fs: &Vec<(&'static str, SVal)>| {
        Value::Array(fs.iter().map(|(k, x)| json!([hx(k), unparse(x)])).collect())
    };
    match v {
        SVal::Bool(b) => json!(["b", b]),
        SVal::I8(x) => json!(["i", "i8", x.to_string()]),
        SVal::I16(x) => json!(["i", "i16", x.to_string()]),
        SVal::I32(x) => json!(["i", "i32", x.to_string()]),
        SVal::I64(x) => json!(["i", "i64", x.to_string()]),
        SVal::I128(x) => json!(["i", "i128", x.to_string()]),
        SVal::U8(x) => json!(["i", "u8", x.to_string()]),
        SVal::U16(x) => json!(["i", "u16", x.to_string()]),
        SVal::U32(x) => json!(["i", "u32", x.to_string()]),
        SVal::U64(x) => json!(["i", "u64", x.to_string()]),
        SVal::U128(x) => json!(["i", "u128", x.to_string()]),
        SVal::F32(x) => json!(["f32", x.to_bits()]),
        SVal::F64(x) => json!(["f64", x.to_bits().to_string()]),
        SVal::Char(c) => json!(["c", *c as u32]),
        SVal::Str(s) => json!(["s", hx(s)]),
        SVal::Bytes(b) => json!(["y", hex(b)]),
        SVal::None => json!(["none"]),
        SVal::Some(x) => json!(["some", unparse(x)]),
        SVal::Unit => json!(["unit"]),
        SVal::UnitStruct(n) => json!(["us", hx(n)]),
        SVal::UnitVariant(n, i, var) => json!(["uv", hx(n), i, hx(var)]),
        SVal::NewtypeStruct(n, x) => json!(["ns", hx(n), unparse(x)]),
        SVal::NewtypeVariant(n, i, var, x) => json!(["nv", hx(n), i, hx(var), unparse(x)]),
        SVal::Seq(len, es) => json!(["seq", len, list(es)]),
        SVal::Tuple(len, es) => json!(["tup", len, list(es)]),
        SVal::TupleStruct(n, len, es) => json!(["ts", hx(n), len, list(es)]),
        SVal::TupleVariant(n, i, var, len, es) => json!(["tv", hx(n), i, hx(var), len, list(es)]),
        SVal::Map(len, kvs) => json!([
            "map",
            len,
            Value::Array(kvs.iter().map(|(k, x)| json!([unparse(k), unparse(x)])).collect())
        ]),
        SVal::Struct(n, len, fs) => json!(["st", hx(n), len, flds(fs)]),
        SVal::StructVariant(n, i, var, len, fs) => json!(["sv", hx(n), i, hx(var), len, flds(fs)]),
        SVal::CollectStr(frags) => json!(["cs", frags.iter().map(|f| hx(f)).collect::<Vec<_>>()]),
        SVal::HumanReadable(a, b) => json!(["hr", unparse(a), unparse(b)]),
        SVal::Json(v) => json!(["json", junparse(v)]),
        SVal::Net(nv) => {
            let (k, o, p) = nv.parts();
            json!(["net", k, hex(&o), p])
        }
    }
}

/// Collect the text serde_json writes for every finite float of the tree (the model treats the
/// digits as an opaque token).
fn float_tokens(v: &SVal, out: &mut serde_json::Map<String, Value>) {
    match v {
        SVal::F32(x) => {
            out.insert(format!("f32:{}", x.to_bits()), Value::String(hex(&serde_json::to_vec(x).unwrap())));
        }
        SVal::F64(x) => {
            out.insert(format!("f64:{}", x.to_bits()), Value::String(hex(&serde_json::to_vec(x).unwrap())));
        }
        SVal::Some(x) | SVal::NewtypeStruct(_, x) | SVal::NewtypeVariant(_, _, _, x) => float_tokens(x, out),
        SVal::Seq(_, es) | SVal::Tuple(_, es) | SVal::TupleStruct(_, _, es) | SVal::TupleVariant(_, _, _, _, es) => {
            es.iter().for_each(|e| float_tokens(e, out))
        }
        SVal::Map(_, kvs) => kvs.iter().for_each(|(k, x)| {
            float_tokens(k, out);
            float_tokens(x, out)
        }),
        SVal::Struct(_, _, fs) | SVal::StructVariant(_, _, _, _, fs) => {
            fs.iter().for_each(|(_, x)| float_tokens(x, out))
        }
        SVal::HumanReadable(a, b) => {
            float_tokens(a, out);
            float_tokens(b, out)
        }
        SVal::Json(v) => json_float_tokens(v, out),
        SVal::Net(nv) => {
            // the Display text of the address (an opaque token for the model, like float texts)
            let (k, o, p) = nv.parts();
            out.insert(format!("net:{}:{}:{}", k, hex(&o), p), Value::String(hex(nv.text().as_bytes())));
        }
        _ => {}
    }
}

const BIG: usize = 1 << 16;

/// 0 = Ok with the reference bytes, 1 = BufferTooSmall, 2 = KeyMustBeAString, 3 = Ok, other bytes
fn run_at(v: &SVal, buf: &mut [u8], n: usize, out: &Option<Vec<u8>>) -> u8 {
    for b in buf[..n].iter_mut() {
        *b = 0xAA;
    }
    match to_slice(v, &mut buf[..n]) {
        Ok(len) => {
            if Some(&buf[..len]) == out.as_deref() {
                0
            } else {
                3
            }
        }
        Err(SerError::BufferTooSmall) => 1,
        Err(SerError::KeyMustBeAString) => 2,
    }
}

#[derive(Serialize, Debug)]
struct Pad {
    p: String,
}

/// The frame `send_reply(&Reply{parameters: Some(v), continues})` puts on the socket when `pad`
/// bytes of an enqueued call already occupy the write buffer.
fn send_frame(v: &SVal, cont: Option<bool>, pad: usize) -> Value {
    let (sock, sh) = SSocket::new(Default::default());
    let mut conn = Connection::new(sock);
    let mut before = 0usize;
    if pad > 0 {
        // {"p":"xxx"}\0 is 9 + k bytes
        let k = pad.saturating_sub(9);
        if conn.enqueue_call(&Call::new(Pad { p: "x".repeat(k) })).is_err() {
            return json!({"pad": pad, "st": "pad-error"});
        }
        before = conn.write().verif_state().0;
    }
    let (_, cap0) = conn.write().verif_state();
    let reply = Reply::new(Some(v.clone())).set_continues(cont);
    let res = {
        let fut = conn.send_reply(&reply);
        let mut fut = std::pin::pin!(fut);
        match poll_once(fut.as_mut()) {
            Poll::Ready(r) => Some(r),
            Poll::Pending => None,
        }
    };
    let (_, cap1) = conn.write().verif_state();
    match res {
        None => json!({"pad": pad, "st": "pending"}),
        Some(Err(e)) => json!({"pad": pad, "st": err_name(&e), "free": cap0 - before}),
        Some(Ok(())) => {
            let w: Vec<u8> = sh.borrow().writes.concat();
            if w.len() < before + 1 || w[w.len() - 1] != 0 {
                return json!({"pad": pad, "st": "bad-write", "raw": hex(&w)});
            }
            let frame = &w[before..w.len() - 1];
            json!({"pad": pad, "st": "ok", "frame": hex(frame), "free": cap0 - before, "cap": cap1})
        }
    }
}

fn run_tree(case: &Value) -> Value {
    let v = parse(&case["v"]);
    let mut buf = vec![0u8; BIG];
    let serde = serde_json::to_vec(&v).ok();
    // the reference run: a buffer that is certainly large enough
    let top = match to_slice(&v, &mut buf[..]) {
        Ok(len) => Ok(buf[..len].to_vec()),
        Err(e) => Err(e),
    };
    let out = top.clone().ok();
    let mut sweep: Vec<(usize, u8)> = Vec::new();
    let all = case["sweep"].as_str() == Some("all");
    if all {
        // every size from 0 until the first one that is not "too small", and one beyond
        let mut n = 0usize;
        loop {
            let c = run_at(&v, &mut buf, n, &out);
            sweep.push((n, c));
            if c != 1 || n >= 4096 {
                break;
            }
            n += 1;
        }
        let c = run_at(&v, &mut buf, n + 1, &out);
        sweep.push((n + 1, c));
    } else {
        let l = out.as_ref().map(|o| o.len()).or(serde.as_ref().map(|s| s.len())).unwrap_or(64);
        let mut ns = vec![0, 1, l / 2, l.saturating_sub(2), l.saturating_sub(1), l, l + 1, l + 2];
        if let Some(x) = case["ns"].as_array() {
            ns.extend(x.iter().map(|y| us(y) % (l + 3)));
        }
        ns.sort();
        ns.dedup();
        for n in ns {
            let c = run_at(&v, &mut buf, n, &out);
            sweep.push((n, c));
        }
    }
    sweep.push((BIG, run_at(&v, &mut buf, BIG, &out)));
    let mut toks = serde_json::Map::new();
    float_tokens(&v, &mut toks);
    // direct differential, no model involved
    let direct = match (&out, &serde) {
        (Some(o), Some(s)) => o == s,
        (Some(_), None) => false,
        (None, _) => true,
    };
    let mut res = json!({
        "id": case["id"],
        "sweep": sweep,
        "out": out.as_ref().map(|o| hex(o)),
        "serde": serde.as_ref().map(|o| hex(o)),
        "top": match top { Ok(_) => "ok", Err(SerError::BufferTooSmall) => "small", Err(SerError::KeyMustBeAString) => "key" },
        "ftoks": toks,
        "direct": direct,
    });
    if !case["send"].is_null() {
        let cont = case["cont"].as_bool();
        let reply = Reply::new(Some(v.clone())).set_continues(cont);
        let sframe = serde_json::to_vec(&reply).ok();
        // `pad` bytes are enqueued first; the buffer then has 256*ceil(pad/256) - pad bytes free.
        // "auto": free space around the frame length (the frame needs its length plus one byte
        // for the terminator), the smallest values, with one and with several growth steps
        let f = sframe.as_ref().map(|b| b.len()).unwrap_or(40);
        let mut pads: Vec<usize> = vec![0];
        match case["send"].as_str() {
            Some("all") => pads.extend(9..=256),
            Some("auto") => {
                for free in [0, 1, 2, 3, f / 2, f.saturating_sub(1), f, f + 1, f + 2] {
                    for m in [1usize, 2, 3] {
                        if 256 * m >= free + 9 && free < 256 {
                            pads.push(256 * m - free);
                        }
                    }
                }
                if let Some(x) = case["pad"].as_u64() {
                    pads.push(9 + (x as usize) % 600);
                }
            }
            _ => pads.extend(case["send"].as_array().unwrap().iter().map(us)),
        }
        pads.sort();
        pads.dedup();
        let frames: Vec<Value> = pads.iter().map(|p| send_frame(&v, cont, *p)).collect();
        res["frames"] = Value::Array(frames);
        res["limit"] = json!(zlink_core::verif::LIMITS.1);
        res["serde_frame"] = match sframe {
            Some(b) => Value::String(hex(&b)),
            None => Value::Null,
        };
    }
    res
}

// ------------------------------------------------------------------ built-in exhaustive sweeps

struct Sweep {
    buf: Vec<u8>,
    count: u64,
    refused: u64,
    nulls: u64,
    fails: Vec<Value>,
}

impl Sweep {
    fn new() -> Self {
        Sweep { buf: vec![0u8; 4096], count: 0, refused: 0, nulls: 0, fails: Vec::new() }
    }

    fn fail(&mut self, v: &SVal, why: &str) {
        if self.fails.len() < 5 {
            self.fails.push(json!({"v": unparse(v), "why": why}));
        }
    }

    /// zlink must produce serde_json's bytes, succeed in a buffer of exactly that size and
    /// report BufferTooSmall in one byte less; with `refuse` it must refuse the value instead.
    fn one(&mut self, v: &SVal, refuse: bool) {
        self.count += 1;
        let z = to_slice(v, &mut self.buf[..]);
        if refuse {
            self.refused += 1;
            if z != Err(SerError::KeyMustBeAString) {
                self.fail(v, "not refused with KeyMustBeAString");
            }
            return;
        }
        let s = match serde_json::to_vec(v) {
            Ok(s) => s,
            Err(_) => {
                if z.is_ok() {
                    self.fail(v, "zlink encodes what serde_json refuses");
                }
                return;
            }
        };
        match z {
            Ok(n) if self.buf[..n] == s[..] => {}
            Ok(_) => {
                self.fail(v, "bytes differ from serde_json");
                return;
            }
            Err(SerError::KeyMustBeAString) => {
                self.fail(v, "refused although every key is a string, char, integer or unit variant");
                return;
            }
            Err(SerError::BufferTooSmall) => {
                self.fail(v, "BufferTooSmall in a 4096-byte buffer");
                return;
            }
        }
        if s == b"null" {
            self.nulls += 1;
        }
        if s.iter().any(|b| *b < 0x20) {
            self.fail(v, "control byte in output");
        }
        if std::str::from_utf8(&s).is_err() {
            self.fail(v, "output is not UTF-8");
        }
        let n = s.len();
        if to_slice(v, &mut self.buf[..n]) != Ok(n) || self.buf[..n] != s[..] {
            self.fail(v, "fails in a buffer of exactly the output size");
        }
        if n > 0 && to_slice(v, &mut self.buf[..n - 1]) != Err(SerError::BufferTooSmall) {
            self.fail(v, "no BufferTooSmall in a buffer one byte short");
        }
    }

    /// As `one`, and additionally every buffer size 0..=len+1: BufferTooSmall below the output
    /// length, the same bytes from it on (never a shorter "success").
    fn all_sizes(&mut self, v: &SVal) {
        self.one(v, false);
        let Ok(s) = serde_json::to_vec(v) else { return };
        for n in 0..=s.len() + 1 {
            self.count += 1;
            let r = to_slice(v, &mut self.buf[..n]);
            let ok = if n < s.len() {
                r == Err(SerError::BufferTooSmall)
            } else {
                r == Ok(s.len()) && self.buf[..s.len()] == s[..]
            };
            if !ok {
                self.fail(v, "wrong result at some buffer size (bytes or BufferTooSmall depend on the free space)");
                return;
            }
        }
    }

    fn finish(self, case: &Value) -> Value {
        json!({"id": case["id"], "job": case["job"], "count": self.count, "refused": self.refused,
               "nulls": self.nulls, "fails": self.fails})
    }
}

fn entry(k: SVal) -> SVal {
    SVal::Map(Some(1), vec![(k, SVal::U8(1))])
}

struct Rng(u64);
impl Rng {
    fn next(&mut self) -> u64 {
        // splitmix64
        self.0 = self.0.wrapping_add(0x9E3779B97F4A7C15);
        let mut z = self.0;
        z = (z ^ (z >> 30)).wrapping_mul(0xBF58476D1CE4E5B9);
        z = (z ^ (z >> 27)).wrapping_mul(0x94D049BB133111EB);
        z ^ (z >> 31)
    }
}

fn job_unicode(case: &Value) -> Value {
    let (lo, hi) = (case["lo"].as_u64().unwrap() as u32, case["hi"].as_u64().unwrap() as u32);
    let mut sw = Sweep::new();
    for cp in lo..hi {
        let Some(c) = char::from_u32(cp) else { continue };
        sw.one(&SVal::Str(c.to_string()), false);
        sw.one(&SVal::Char(c), false);
        sw.one(&entry(SVal::Str(c.to_string())), false);
        sw.one(&entry(SVal::Char(c)), false);
        if cp % 64 == 0 || cp < 0x800 {
            let name = leak(&c.to_string());
            sw.one(&SVal::Struct("S", 1, vec![(name, SVal::Unit)]), false);
            sw.one(&SVal::UnitVariant("E", 0, name), false);
            sw.one(&entry(SVal::UnitVariant("E", 0, name)), false);
            sw.one(&SVal::NewtypeVariant("E", 0, name, Box::new(SVal::Str(format!("a{c}b{c}")))), false);
        }
    }
    sw.finish(case)
}

fn job_pairs(case: &Value) -> Value {
    let mut sw = Sweep::new();
    let mut alpha: Vec<String> = (0u8..0x20).map(|b| (b as char).to_string()).collect();
    for s in ["\"", "\\", "a", "/", " ", "!", "#", "[", "]", "\u{7f}", "\u{80}", "é", "\u{2028}", "\u{ffff}", "😀"] {
        alpha.push(s.to_string());
    }
    for x in &alpha {
        for y in &alpha {
            for (pre, mid, post) in [("", "", ""), ("a", "", ""), ("", "", "b"), ("é", "z", "ü"), ("ab", "", "cd")] {
                let s = format!("{pre}{x}{mid}{y}{post}");
                sw.one(&SVal::Str(s.clone()), false);
                sw.one(&entry(SVal::Str(s.clone())), false);
                if pre.is_empty() && mid.is_empty() {
                    sw.one(&SVal::Struct("S", 1, vec![(leak(&s), SVal::Str(s.clone()))]), false);
                }
            }
        }
    }
    sw.finish(case)
}

fn job_ints16(case: &Value) -> Value {
    let mut sw = Sweep::new();
    for x in i8::MIN..=i8::MAX {
        sw.one(&SVal::I8(x), false);
        sw.one(&entry(SVal::I8(x)), false);
    }
    for x in u8::MIN..=u8::MAX {
        sw.one(&SVal::U8(x), false);
        sw.one(&entry(SVal::U8(x)), false);
        sw.one(&SVal::Bytes(vec![x, x.wrapping_mul(7)]), false);
    }
    for x in i16::MIN..=i16::MAX {
        sw.one(&SVal::I16(x), false);
        sw.one(&entry(SVal::I16(x)), false);
    }
    for x in u16::MIN..=u16::MAX {
        sw.one(&SVal::U16(x), false);
        sw.one(&entry(SVal::U16(x)), false);
    }
    sw.finish(case)
}

fn job_intswide(case: &Value) -> Value {
    let mut sw = Sweep::new();
    let mut rng = Rng(case["seed"].as_u64().unwrap());
    let n = case["n"].as_u64().unwrap();
    let both = |sw: &mut Sweep, v: SVal| {
        sw.one(&v, false);
        sw.one(&entry(v.clone()), false);
        sw.one(&entry(SVal::NewtypeStruct("N", Box::new(v))), false);
    };
    // boundaries: 0, +-1, powers of two and of ten, +-1 around them, extremes
    let mut bnd: Vec<i128> = vec![0, 1, -1];
    for k in 0..127 {
        let p = 1i128 << k;
        bnd.extend([p - 1, p, p + 1, -p - 1, -p, -p + 1]);
    }
    let mut t = 1i128;
    for _ in 0..38 {
        bnd.extend([t - 1, t, t + 1, -t - 1, -t, -t + 1]);
        t = t.saturating_mul(10);
    }
    bnd.extend([i128::MIN, i128::MAX]);
    for b in &bnd {
        if let Ok(x) = i32::try_from(*b) { both(&mut sw, SVal::I32(x)); }
        if let Ok(x) = u32::try_from(*b) { both(&mut sw, SVal::U32(x)); }
        if let Ok(x) = i64::try_from(*b) { both(&mut sw, SVal::I64(x)); }
        if let Ok(x) = u64::try_from(*b) { both(&mut sw, SVal::U64(x)); }
        both(&mut sw, SVal::I128(*b));
        if let Ok(x) = u128::try_from(*b) {
            both(&mut sw, SVal::U128(x));
            both(&mut sw, SVal::U128(u128::MAX - x));
        }
    }
    for _ in 0..n {
        let a = rng.next();
        let b = rng.next();
        let sh = (rng.next() % 128) as u32;
        let wide = (((a as u128) << 64) | b as u128) >> sh;
        both(&mut sw, SVal::I32(a as i32 >> (sh % 32)));
        both(&mut sw, SVal::U32(a as u32 >> (sh % 32)));
        both(&mut sw, SVal::I64(b as i64 >> (sh % 64)));
        both(&mut sw, SVal::U64(b >> (sh % 64)));
        both(&mut sw, SVal::I128((((a as u128) << 64) | b as u128) as i128 >> sh));
        both(&mut sw, SVal::U128(wide));
    }
    sw.finish(case)
}

fn f32_one(sw: &mut Sweep, bits: u32) {
    let f = f32::from_bits(bits);
    let v = SVal::F32(f);
    sw.one(&v, false);
    if !f.is_finite() {
        // NaN / infinities must come out as null
        let n = to_slice(&v, &mut sw.buf[..]).unwrap_or(0);
        if &sw.buf[..n] != b"null" {
            sw.fail(&v, "non-finite f32 is not null");
        }
    }
}

fn f64_one(sw: &mut Sweep, bits: u64) {
    let f = f64::from_bits(bits);
    let v = SVal::F64(f);
    sw.one(&v, false);
    if !f.is_finite() {
        let n = to_slice(&v, &mut sw.buf[..]).unwrap_or(0);
        if &sw.buf[..n] != b"null" {
            sw.fail(&v, "non-finite f64 is not null");
        }
    }
}

fn job_f32(case: &Value) -> Value {
    let mut sw = Sweep::new();
    let (lo, hi, step) = (
        case["lo"].as_u64().unwrap(),
        case["hi"].as_u64().unwrap(),
        case["step"].as_u64().unwrap().max(1),
    );
    let mut b = lo;
    while b < hi {
        f32_one(&mut sw, b as u32);
        b += step;
    }
    if case["edges"].as_bool() == Some(true) {
        // every exponent with the mantissa at both ends and in the middle, both signs; all NaN-box edges
        for sign in [0u32, 1] {
            for e in 0..=255u32 {
                for m in [0u32, 1, 2, 0x3f_ffff, 0x40_0000, 0x40_0001, 0x7f_fffe, 0x7f_ffff] {
                    f32_one(&mut sw, (sign << 31) | (e << 23) | m);
                }
            }
        }
        let mut rng = Rng(case["seed"].as_u64().unwrap_or(1));
        for _ in 0..case["n"].as_u64().unwrap_or(0) {
            let bits = rng.next() as u32;
            f32_one(&mut sw, bits);
            // as a map key zlink refuses floats (serde_json would quote them)
            sw.one(&entry(SVal::F32(f32::from_bits(bits))), true);
        }
        // short decimals: k / 10^j
        for k in 0..2000u32 {
            for j in [1f32, 10., 100., 1000., 1e5, 1e10, 1e-5, 1e20, 1e-20, 1e38] {
                f32_one(&mut sw, (k as f32 / j).to_bits());
                f32_one(&mut sw, (-(k as f32) * j).to_bits());
            }
        }
    }
    sw.finish(case)
}

fn job_f64(case: &Value) -> Value {
    let mut sw = Sweep::new();
    for sign in [0u64, 1] {
        for e in 0..=2047u64 {
            for m in [0u64, 1, 2, (1 << 51) - 1, 1 << 51, (1 << 51) + 1, (1 << 52) - 2, (1 << 52) - 1] {
                f64_one(&mut sw, (sign << 63) | (e << 52) | m);
            }
        }
    }
    let mut rng = Rng(case["seed"].as_u64().unwrap_or(1));
    for _ in 0..case["n"].as_u64().unwrap_or(0) {
        let bits = rng.next();
        f64_one(&mut sw, bits);
        // values of moderate magnitude (random mantissa, exponent near 0)
        f64_one(&mut sw, (bits & 0x800f_ffff_ffff_ffff) | ((1023 - 40 + (bits >> 52) % 80) << 52));
        sw.one(&entry(SVal::F64(f64::from_bits(bits))), true);
    }
    for k in 0..5000u64 {
        for j in [1f64, 10., 100., 1000., 1e5, 1e10, 1e15, 1e16, 1e17, 1e21, 1e22, 1e-5, 1e-7, 1e100, 1e-100, 1e300] {
            f64_one(&mut sw, (k as f64 / j).to_bits());
            f64_one(&mut sw, (-(k as f64) * j).to_bits());
        }
    }
    sw.finish(case)
}

/// Display values through `collect_str`, in value and key positions, at every buffer size.
fn job_collect(case: &Value) -> Value {
    let mut sw = Sweep::new();
    let alpha = ["", "a", "ab", "\"", "\\", "\n", "\u{1}", "é", "😀", "x\"y", "2024-01-02T03:04:05", "/:.-"];
    let mut lists: Vec<Vec<String>> = Vec::new();
    for a in alpha {
        lists.push(vec![a.to_string()]);
        for b in alpha {
            lists.push(vec![a.to_string(), b.to_string()]);
            for c in alpha {
                lists.push(vec![a.to_string(), b.to_string(), c.to_string()]);
            }
        }
    }
    lists.push((0..40).map(|i| format!("{i}-")).collect());
    lists.push(vec![]);
    for l in lists {
        let d = SVal::CollectStr(l);
        sw.all_sizes(&d);
        sw.all_sizes(&entry(d.clone()));
        sw.all_sizes(&SVal::Map(None, vec![(SVal::Str("k".into()), SVal::U8(7)), (d.clone(), d.clone())]));
        sw.all_sizes(&entry(SVal::NewtypeStruct("N", Box::new(d.clone()))));
        sw.all_sizes(&SVal::Struct("S", 2, vec![("a", d.clone()), ("b", SVal::Seq(None, vec![d.clone(), d]))]));
    }
    sw.finish(case)
}

/// Types whose Serialize consults is_human_readable(): std::net and a probe, value and key.
fn job_net(case: &Value) -> Value {
    use std::net::{IpAddr, Ipv4Addr, Ipv6Addr, SocketAddr};
    let mut sw = Sweep::new();
    let mut rng = Rng(case["seed"].as_u64().unwrap_or(1));
    let probe = SVal::HumanReadable(
        Box::new(SVal::Str("human".into())),
        Box::new(SVal::Tuple(2, vec![SVal::U8(1), SVal::U8(2)])),
    );
    sw.all_sizes(&probe);
    sw.all_sizes(&entry(probe.clone()));
    sw.all_sizes(&SVal::Seq(Some(2), vec![probe.clone(), probe]));
    let mut v4s: Vec<Ipv4Addr> = vec![
        Ipv4Addr::new(0, 0, 0, 0), Ipv4Addr::new(255, 255, 255, 255), Ipv4Addr::new(127, 0, 0, 1),
        Ipv4Addr::new(192, 168, 1, 20), Ipv4Addr::new(9, 10, 99, 100), Ipv4Addr::new(101, 102, 103, 104),
    ];
    let mut v6s: Vec<Ipv6Addr> = vec![
        Ipv6Addr::UNSPECIFIED, Ipv6Addr::LOCALHOST, Ipv6Addr::new(0x2001, 0xdb8, 0, 0, 0, 0, 0, 1),
        Ipv6Addr::new(0xffff, 0xffff, 0xffff, 0xffff, 0xffff, 0xffff, 0xffff, 0xffff),
        Ipv6Addr::new(0, 0, 0, 0, 0, 0xffff, 0xc0a8, 0x0114), Ipv6Addr::new(1, 0, 0, 2, 0, 0, 0, 3),
        Ipv6Addr::new(0x1001, 0x1002, 0x1003, 0x1004, 0x1005, 0x1006, 0x1007, 0x1008),
    ];
    for _ in 0..case["n"].as_u64().unwrap_or(0) {
        v4s.push(Ipv4Addr::from(rng.next() as u32));
        let (a, b) = (rng.next(), rng.next());
        let mask = if rng.next() % 2 == 0 { u128::MAX } else { (rng.next() as u128) << 64 | rng.next() as u128 };
        v6s.push(Ipv6Addr::from((((a as u128) << 64) | b as u128) & mask));
    }
    let mut vals: Vec<NetVal> = Vec::new();
    for a in &v4s {
        let port = rng.next() as u16;
        vals.extend([NetVal::V4(*a), NetVal::Ip(IpAddr::V4(*a)), NetVal::Sock(SocketAddr::new(IpAddr::V4(*a), port))]);
    }
    for a in &v6s {
        let port = [0u16, 1, 80, 65535][(rng.next() % 4) as usize];
        vals.extend([NetVal::V6(*a), NetVal::Ip(IpAddr::V6(*a)), NetVal::Sock(SocketAddr::new(IpAddr::V6(*a), port))]);
    }
    for nv in vals {
        let v = SVal::Net(nv);
        sw.one(&v, false);
        sw.one(&entry(v.clone()), false);
        sw.one(&SVal::Some(Box::new(v)), false);
    }
    sw.finish(case)
}

/// `serde_json::Value` trees (free-form parameters): every kind of Number, nested in arrays,
/// objects, Option, map values; compared with serde_json at every buffer size.
fn job_json(case: &Value) -> Value {
    use serde_json::Number;
    let mut sw = Sweep::new();
    let mut rng = Rng(case["seed"].as_u64().unwrap_or(1));
    let mut nums: Vec<Value> = Vec::new();
    for u in [0u64, 1, 9, 10, 255, 256, 65535, 65536, u32::MAX as u64, 1 << 53, i64::MAX as u64, (i64::MAX as u64) + 1, u64::MAX] {
        nums.push(Value::Number(Number::from(u)));
    }
    for i in [-1i64, -9, -10, -128, -32768, i32::MIN as i64, -(1 << 53), i64::MIN] {
        nums.push(Value::Number(Number::from(i)));
    }
    for f in [0.0f64, -0.0, 1.0, -1.5, 0.1, 1e15, 1e16, 1e21, 1e22, 1.5e-7, 1e-5, 123456789.125, 5e-324, f64::MAX, f64::MIN_POSITIVE, 1e300, -2.5e-300] {
        nums.push(Value::Number(Number::from_f64(f).unwrap()));
    }
    for _ in 0..case["n"].as_u64().unwrap_or(0) {
        let b = rng.next();
        nums.push(Value::Number(Number::from(b >> (rng.next() % 64))));
        nums.push(Value::Number(Number::from(-((b >> (1 + rng.next() % 63)) as i64) - 1)));
        let f = f64::from_bits(rng.next());
        if let Some(n) = Number::from_f64(f) {
            nums.push(Value::Number(n));
        }
    }
    let others = [Value::Null, Value::Bool(true), Value::Bool(false), json!(""), json!("a\"\n\u{1}é😀"), json!([]), json!({})];
    for (i, n) in nums.iter().chain(others.iter()).enumerate() {
        let o = &others[i % others.len()];
        sw.all_sizes(&SVal::Json(n.clone()));
        sw.all_sizes(&SVal::Json(json!([n, o, n])));
        sw.all_sizes(&SVal::Json(json!({"b": n, "a": [o, {"z": n}], "a\"": o})));
        sw.one(&SVal::Some(Box::new(SVal::Json(n.clone()))), false);
        sw.one(&SVal::Struct("P", 2, vec![("id", SVal::U8(1)), ("params", SVal::Json(json!({"n": n})))]), false);
        sw.one(&SVal::Map(Some(1), vec![(SVal::Str("k".into()), SVal::Json(n.clone()))]), false);
        // as a key a Value is acceptable when it is a string or an integer (quoted)
        sw.one(&entry(SVal::Json(n.clone())), !(n.is_string() || n.is_u64() || n.is_i64()));
    }
    sw.finish(case)
}

fn run_case(case: &Value) -> Value {
    match case["job"].as_str() {
        None => run_tree(case),
        Some("unicode") => job_unicode(case),
        Some("pairs") => job_pairs(case),
        Some("ints16") => job_ints16(case),
        Some("intswide") => job_intswide(case),
        Some("f32") => job_f32(case),
        Some("f64") => job_f64(case),
        Some("collect") => job_collect(case),
        Some("net") => job_net(case),
        Some("json") => job_json(case),
        Some(j) => panic!("unknown job {j}"),
    }
}

fn main() {
    let stdin = std::io::stdin();
    let stdout = std::io::stdout();
    let mut w = std::io::BufWriter::new(stdout.lock());
    std::panic::set_hook(Box::new(|_| {}));
    for line in stdin.lock().lines() {
        let line = line.unwrap();
        if line.trim().is_empty() {
            continue;
        }
        let case: Value = serde_json::from_str(&line).unwrap();
        let r = std::panic::catch_unwind(|| run_case(&case));
        let out = match r {
            Ok(v) => v,
            Err(e) => {
                let msg = e
                    .downcast_ref::<String>()
                    .cloned()
                    .or_else(|| e.downcast_ref::<&str>().map(|s| s.to_string()))
                    .unwrap_or_default();
                json!({"id": case["id"], "panic": true, "msg": msg})
            }
        };
        writeln!(w, "{}", out).unwrap();
    }
}
