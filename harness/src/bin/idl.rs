//! IDL harness (C13, C14): runs the real IDL parser and the real Display impls.
//! stdin: one JSON case per line; stdout: one JSON result per line with the same "id".
//!
//! op "parse": {"id", "op":"parse", "text": <hex of UTF-8 text>}
//!    -> {"id", "class": "ok"|"err"|"panic", "tree": <dump>, "display": <hex>}
//! op "build": {"id", "op":"build", "tree": <tree>, "socket": bool}
//!    builds the tree through the public constructors (owned and borrowed forms), renders both,
//!    parses the rendering back, re-renders, and runs the InterfaceDescription paths.
//!
//! Tree format (all strings hex encoded):
//!   interface {name, comments:[..], types:[custom], methods:[method], errors:[error]}
//!   custom    {k:"obj", name, fields:[field], comments} | {k:"enum", name, variants:[variant], comments}
//!   method    {name, inputs:[field], outputs:[field], comments}
//!   error     {name, fields:[field], comments}
//!   field     {name, ty:type, comments}      variant {name, comments}
//!   type      {t:"bool"|"int"|"float"|"string"|"object"} | {t:"opt"|"arr"|"map", i:type}
//!             | {t:"custom", n} | {t:"enum", vs:[variant]} | {t:"struct", fs:[field]}
use serde_json::{json, Value};
use std::io::{BufRead, Write};
use std::task::Poll;
use zlink_core::idl::{
    Comment, CustomEnum, CustomObject, CustomType, EnumVariant, Error, Field, Interface, List,
    Method, Type, TypeRef,
};
use zlink_core::varlink_service::{self, InterfaceDescription};
use zv::*;

// ---------------------------------------------------------------- dump

fn hs(s: &str) -> Value {
    Value::String(hex(s.as_bytes()))
}

fn dump_comments<'a, 'b: 'a>(it: impl Iterator<Item = &'a Comment<'b>>) -> Value {
    Value::Array(it.map(|c| hs(c.text())).collect())
}

fn dump_variant(v: &EnumVariant<'_>) -> Value {
    json!({"name": hs(v.name()), "comments": dump_comments(v.comments())})
}

fn dump_field(f: &Field<'_>) -> Value {
    json!({"name": hs(f.name()), "ty": dump_type(f.ty()), "comments": dump_comments(f.comments())})
}

fn dump_type(t: &Type<'_>) -> Value {
    match t {
        Type::Bool => json!({"t": "bool"}),
        Type::Int => json!({"t": "int"}),
        Type::Float => json!({"t": "float"}),
        Type::String => json!({"t": "string"}),
        Type::ForeignObject => json!({"t": "object"}),
        Type::Optional(i) => json!({"t": "opt", "i": dump_type(i.inner())}),
        Type::Array(i) => json!({"t": "arr", "i": dump_type(i.inner())}),
        Type::Map(i) => json!({"t": "map", "i": dump_type(i.inner())}),
        Type::Custom(n) => json!({"t": "custom", "n": hs(n)}),
        Type::Enum(vs) => json!({"t": "enum", "vs": vs.iter().map(dump_variant).collect::<Vec<_>>()}),
        Type::Object(fs) => json!({"t": "struct", "fs": fs.iter().map(dump_field).collect::<Vec<_>>()}),
    }
}

fn dump_custom(c: &CustomType<'_>) -> Value {
    match c {
        CustomType::Object(o) => json!({"k": "obj", "name": hs(o.name()),
            "fields": o.fields().map(dump_field).collect::<Vec<_>>(),
            "comments": dump_comments(o.comments())}),
        CustomType::Enum(e) => json!({"k": "enum", "name": hs(e.name()),
            "variants": e.variants().map(dump_variant).collect::<Vec<_>>(),
            "comments": dump_comments(e.comments())}),
    }
}

fn dump_method(m: &Method<'_>) -> Value {
    json!({"name": hs(m.name()),
        "inputs": m.inputs().map(dump_field).collect::<Vec<_>>(),
        "outputs": m.outputs().map(dump_field).collect::<Vec<_>>(),
        "comments": dump_comments(m.comments())})
}

fn dump_error(e: &Error<'_>) -> Value {
    json!({"name": hs(e.name()),
        "fields": e.fields().map(dump_field).collect::<Vec<_>>(),
        "comments": dump_comments(e.comments())})
}

fn dump_interface(i: &Interface<'_>) -> Value {
    json!({"name": hs(i.name()),
        "comments": dump_comments(i.comments()),
        "types": i.custom_types().map(dump_custom).collect::<Vec<_>>(),
        "methods": i.methods().map(dump_method).collect::<Vec<_>>(),
        "errors": i.errors().map(dump_error).collect::<Vec<_>>()})
}

// ---------------------------------------------------------------- build

fn leak<T>(x: T) -> &'static T {
    Box::leak(Box::new(x))
}
fn leak_slice<T>(v: Vec<&'static T>) -> &'static [&'static T] {
    Box::leak(v.into_boxed_slice())
}
fn lstr(v: &Value) -> &'static str {
    Box::leak(
        String::from_utf8(unhex(v.as_str().unwrap()))
            .expect("case strings are UTF-8")
            .into_boxed_str(),
    )
}
fn arr(v: &Value) -> &Vec<Value> {
    v.as_array().unwrap()
}

fn comments_owned(v: &Value) -> Vec<Comment<'static>> {
    arr(v).iter().map(|c| Comment::new(lstr(c))).collect()
}
fn comments_borrowed(v: &Value) -> &'static [&'static Comment<'static>] {
    leak_slice(arr(v).iter().map(|c| leak(Comment::new(lstr(c)))).collect())
}

fn variant(v: &Value, owned: bool) -> EnumVariant<'static> {
    if owned {
        EnumVariant::new_owned(lstr(&v["name"]), comments_owned(&v["comments"]))
    } else {
        EnumVariant::new(lstr(&v["name"]), comments_borrowed(&v["comments"]))
    }
}

fn field(v: &Value, owned: bool) -> Field<'static> {
    if owned {
        Field::new_owned(lstr(&v["name"]), ty(&v["ty"], true), comments_owned(&v["comments"]))
    } else {
        Field::new(lstr(&v["name"]), leak(ty(&v["ty"], false)), comments_borrowed(&v["comments"]))
    }
}

fn tref(v: &Value, owned: bool) -> TypeRef<'static> {
    if owned {
        TypeRef::new_owned(ty(v, true))
    } else {
        TypeRef::new(leak(ty(v, false)))
    }
}

fn ty(v: &Value, owned: bool) -> Type<'static> {
    match v["t"].as_str().unwrap() {
        "bool" => Type::Bool,
        "int" => Type::Int,
        "float" => Type::Float,
        "string" => Type::String,
        "object" => Type::ForeignObject,
        "opt" => Type::Optional(tref(&v["i"], owned)),
        "arr" => Type::Array(tref(&v["i"], owned)),
        "map" => Type::Map(tref(&v["i"], owned)),
        "custom" => Type::Custom(lstr(&v["n"])),
        "enum" => {
            let vs: Vec<EnumVariant<'static>> = arr(&v["vs"]).iter().map(|x| variant(x, owned)).collect();
            if owned {
                Type::Enum(List::from(vs))
            } else {
                Type::Enum(List::Borrowed(leak_slice(vs.into_iter().map(leak).collect())))
            }
        }
        "struct" => {
            let fs: Vec<Field<'static>> = arr(&v["fs"]).iter().map(|x| field(x, owned)).collect();
            if owned {
                Type::Object(List::from(fs))
            } else {
                Type::Object(List::Borrowed(leak_slice(fs.into_iter().map(leak).collect())))
            }
        }
        t => panic!("bad type tag {t}"),
    }
}

fn fields(v: &Value, owned: bool) -> Vec<Field<'static>> {
    arr(v).iter().map(|x| field(x, owned)).collect()
}
fn bfields(v: &Value) -> &'static [&'static Field<'static>] {
    leak_slice(fields(v, false).into_iter().map(leak).collect())
}

fn custom(v: &Value, owned: bool) -> CustomType<'static> {
    let name = lstr(&v["name"]);
    match v["k"].as_str().unwrap() {
        "obj" => {
            if owned {
                CustomType::from(CustomObject::new_owned(name, fields(&v["fields"], true), comments_owned(&v["comments"])))
            } else {
                CustomType::from(CustomObject::new(name, bfields(&v["fields"]), comments_borrowed(&v["comments"])))
            }
        }
        "enum" => {
            let vs: Vec<EnumVariant<'static>> = arr(&v["variants"]).iter().map(|x| variant(x, owned)).collect();
            if owned {
                CustomType::from(CustomEnum::new_owned(name, vs, comments_owned(&v["comments"])))
            } else {
                CustomType::from(CustomEnum::new(
                    name,
                    leak_slice(vs.into_iter().map(leak).collect()),
                    comments_borrowed(&v["comments"]),
                ))
            }
        }
        k => panic!("bad custom kind {k}"),
    }
}

fn method(v: &Value, owned: bool) -> Method<'static> {
    if owned {
        Method::new_owned(lstr(&v["name"]), fields(&v["inputs"], true), fields(&v["outputs"], true), comments_owned(&v["comments"]))
    } else {
        Method::new(lstr(&v["name"]), bfields(&v["inputs"]), bfields(&v["outputs"]), comments_borrowed(&v["comments"]))
    }
}

fn error(v: &Value, owned: bool) -> Error<'static> {
    if owned {
        Error::new_owned(lstr(&v["name"]), fields(&v["fields"], true), comments_owned(&v["comments"]))
    } else {
        Error::new(lstr(&v["name"]), bfields(&v["fields"]), comments_borrowed(&v["comments"]))
    }
}

fn interface(v: &Value, owned: bool) -> Interface<'static> {
    let name = lstr(&v["name"]);
    if owned {
        Interface::new_owned(
            name,
            arr(&v["methods"]).iter().map(|x| method(x, true)).collect(),
            arr(&v["types"]).iter().map(|x| custom(x, true)).collect(),
            arr(&v["errors"]).iter().map(|x| error(x, true)).collect(),
            comments_owned(&v["comments"]),
        )
    } else {
        Interface::new(
            name,
            leak_slice(arr(&v["methods"]).iter().map(|x| leak(method(x, false))).collect()),
            leak_slice(arr(&v["types"]).iter().map(|x| leak(custom(x, false))).collect()),
            leak_slice(arr(&v["errors"]).iter().map(|x| leak(error(x, false))).collect()),
            comments_borrowed(&v["comments"]),
        )
    }
}

// ---------------------------------------------------------------- operations

/// Parse `text` with the real parser under catch_unwind; on success also compare with `cmp`.
fn parse_report(text: &str, cmp: &[&Interface<'_>]) -> Value {
    let r = std::panic::catch_unwind(|| match Interface::try_from(text) {
        Ok(i) => {
            let eqs: Vec<bool> = cmp.iter().map(|c| i == **c).collect();
            json!({"class": "ok", "tree": dump_interface(&i), "display": hex(i.to_string().as_bytes()),
                   "lib_eq": eqs})
        }
        Err(e) => json!({"class": "err", "err": e.to_string().chars().take(120).collect::<String>()}),
    });
    match r {
        Ok(v) => v,
        Err(p) => {
            let msg = p
                .downcast_ref::<String>()
                .cloned()
                .or_else(|| p.downcast_ref::<&str>().map(|s| s.to_string()))
                .unwrap_or_default();
            json!({"class": "panic", "panic": msg.chars().take(160).collect::<String>()})
        }
    }
}

/// CRC-32 (IEEE, reflected) — what Python's zlib.crc32 computes.
fn crc32(data: &[u8]) -> u32 {
    let mut crc = 0xFFFF_FFFFu32;
    for &b in data {
        crc ^= b as u32;
        for _ in 0..8 {
            crc = if crc & 1 != 0 { (crc >> 1) ^ 0xEDB8_8320 } else { crc >> 1 };
        }
    }
    !crc
}

/// Canonical JSON text: compact, object keys sorted (= json.dumps(sort_keys=True, separators=(",", ":"))
/// for the dumps of this harness, whose strings are hex digits only). Iterative over arrays of any
/// length; recursion depth = nesting depth of the value.
fn canon(v: &Value, out: &mut String) {
    match v {
        Value::Object(m) => {
            let mut keys: Vec<&String> = m.keys().collect();
            keys.sort();
            out.push('{');
            for (i, k) in keys.iter().enumerate() {
                if i > 0 {
                    out.push(',');
                }
                out.push('"');
                out.push_str(k);
                out.push_str("\":");
                canon(&m[*k], out);
            }
            out.push('}');
        }
        Value::Array(a) => {
            out.push('[');
            for (i, x) in a.iter().enumerate() {
                if i > 0 {
                    out.push(',');
                }
                canon(x, out);
            }
            out.push(']');
        }
        other => out.push_str(&other.to_string()),
    }
}

fn op_parse(case: &Value) -> Value {
    let bytes = unhex(case["text"].as_str().unwrap());
    let text = match String::from_utf8(bytes) {
        Ok(t) => t,
        Err(_) => return json!({"class": "notutf8"}),
    };
    if case.get("summary").and_then(|b| b.as_bool()).unwrap_or(false) {
        if let Some(kb) = case.get("stack_kb").and_then(|k| k.as_u64()) {
            // parse on a thread with a stack of the given size (tokio's worker threads have 2 MiB)
            let mut inner = case.clone();
            inner.as_object_mut().unwrap().remove("stack_kb");
            return std::thread::Builder::new()
                .stack_size(kb as usize * 1024)
                .spawn(move || op_parse(&inner))
                .unwrap()
                .join()
                .unwrap_or_else(|_| json!({"class": "harness-panic"}));
        }
        // large inputs: report a checksum of the canonical dump instead of megabytes of JSON
        let r = std::panic::catch_unwind(|| match Interface::try_from(text.as_str()) {
            Ok(i) => {
                let mut s = String::new();
                canon(&dump_interface(&i), &mut s);
                json!({"class": "ok", "tree_crc": crc32(s.as_bytes()), "tree_len": s.len(),
                       "members": [i.custom_types().count(), i.methods().count(), i.errors().count()]})
            }
            Err(e) => json!({"class": "err", "err": e.to_string().chars().take(120).collect::<String>()}),
        });
        return match r {
            Ok(v) => v,
            Err(p) => {
                let msg = p
                    .downcast_ref::<String>()
                    .cloned()
                    .or_else(|| p.downcast_ref::<&str>().map(|s| s.to_string()))
                    .unwrap_or_default();
                json!({"class": "panic", "panic": msg.chars().take(160).collect::<String>()})
            }
        };
    }
    parse_report(&text, &[])
}

/// op "seq": {"texts": [hex..], "order": [index..]} — parse texts[order[k]] for k = 0, 1, .. in ONE
/// process, in that order (indices repeat: every text is parsed several times at different points
/// of the sequence). Reports the first result of every text and every later parse of the same text
/// whose result differs from its first one: the parser must be a function of its input, not of
/// the history of earlier parses in the process.
fn op_seq(case: &Value) -> Value {
    let texts: Vec<String> = arr(&case["texts"])
        .iter()
        .map(|t| String::from_utf8(unhex(t.as_str().unwrap())).expect("sequence texts are UTF-8"))
        .collect();
    let order: Vec<usize> = arr(&case["order"]).iter().map(|x| x.as_u64().unwrap() as usize).collect();
    let mut first: Vec<Option<Value>> = vec![None; texts.len()];
    let mut times: Vec<u32> = vec![0; texts.len()];
    let mut diverge = Vec::new();
    let mut n_diverge = 0usize;
    for (pos, &ix) in order.iter().enumerate() {
        let r = parse_report(&texts[ix], &[]);
        times[ix] += 1;
        match &first[ix] {
            None => first[ix] = Some(r),
            Some(f) => {
                if *f != r {
                    n_diverge += 1;
                    if diverge.len() < 5 {
                        diverge.push(json!({"pos": pos, "index": ix, "first": f, "later": r}));
                    }
                }
            }
        }
    }
    json!({
        "class": "seq",
        "parses": order.len(),
        "min_parses_per_text": times.iter().copied().min().unwrap_or(0),
        "results": first.into_iter().map(|x| x.unwrap_or(Value::Null)).collect::<Vec<_>>(),
        "n_diverge": n_diverge,
        "diverge": diverge,
    })
}

/// Drive a future on scripted sockets: poll until ready, give up when the script is exhausted.
fn drive<F: std::future::Future>(fut: F, sh: &Shared) -> Option<F::Output> {
    let mut fut = std::pin::pin!(fut);
    for _ in 0..10_000 {
        match poll_once(fut.as_mut()) {
            Poll::Ready(r) => return Some(r),
            Poll::Pending => {
                if sh.borrow().exhausted {
                    return None;
                }
            }
        }
    }
    None
}

/// The GetInterfaceDescription exchange over scripted sockets: the service side writes the reply
/// with the real connection, the client side receives it through the real proxy.
fn socket_exchange(iface: &Interface<'static>) -> Value {
    use zlink_core::varlink_service::Proxy;
    use zlink_core::Connection;
    let r = std::panic::catch_unwind(std::panic::AssertUnwindSafe(|| {
        let (ssock, ssh) = SSocket::new(std::collections::VecDeque::new());
        let mut server = Connection::new(ssock);
        let reply = zlink_core::Reply::new(Some(varlink_service::Reply::InterfaceDescription(
            InterfaceDescription::from(iface),
        )));
        match drive(server.send_reply(&reply), &ssh) {
            Some(Ok(())) => {}
            Some(Err(e)) => return json!({"class": "senderr", "err": err_name(&e)}),
            None => return json!({"class": "sendstuck"}),
        }
        let wire: Vec<u8> = ssh.borrow().writes.concat();
        // the client: its call goes into the void, the reply is the captured wire bytes, cut in two
        let cut = wire.len() / 2;
        let evs: std::collections::VecDeque<Ev> = vec![
            Ev::Data(wire[..cut].to_vec()),
            Ev::Pend,
            Ev::Data(wire[cut..].to_vec()),
            Ev::Eof,
        ]
        .into();
        let (csock, csh) = SSocket::new(evs);
        let mut client = Connection::new(csock);
        let name: String = iface.name().to_string();
        let res = drive(client.get_interface_description(&name), &csh);
        match res {
            Some(Ok(Ok(desc))) => {
                let raw = desc.as_raw().map(|s| hex(s.as_bytes()));
                let mut v = match desc.parse() {
                    Ok(i) => json!({"class": "ok", "tree": dump_interface(&i), "lib_eq": [i == *iface]}),
                    Err(_) => json!({"class": "err"}),
                };
                v["raw"] = json!(raw);
                v["wire_len"] = json!(wire.len());
                v
            }
            Some(Ok(Err(e))) => json!({"class": "merr", "err": format!("{:?}", e)}),
            Some(Err(e)) => json!({"class": "recverr", "err": err_name(&e), "wire_len": wire.len()}),
            None => json!({"class": "stuck"}),
        }
    }));
    r.unwrap_or_else(|_| json!({"class": "panic"}))
}

fn op_build(case: &Value) -> Value {
    let t = &case["tree"];
    let owned = interface(t, true);
    let borrowed = interface(t, false);
    let d_owned = owned.to_string();
    let d_borrowed = borrowed.to_string();
    let mut out = json!({
        "display": hex(d_owned.as_bytes()),
        "display_borrowed_same": d_owned == d_borrowed,
        "eq_owned_borrowed": owned == borrowed && borrowed == owned,
        "dump_owned_same": dump_interface(&owned) == *t,
        "dump_borrowed_same": dump_interface(&borrowed) == *t,
    });
    // parse(render x), compared with both forms by the library's PartialEq
    out["parse"] = parse_report(&d_owned, &[&owned, &borrowed]);
    // InterfaceDescription: serialize (serde_json and zlink's own serializer) -> deserialize -> parse
    let desc = InterfaceDescription::from(&owned);
    let js = serde_json::to_string(&desc).unwrap();
    let mut buf = vec![0u8; js.len() * 2 + 64];
    let own = zlink_core::verif::to_slice(&desc, &mut buf).map(|n| buf[..n].to_vec());
    out["desc_ser_same"] = json!(own.as_ref().map(|b| b.as_slice() == js.as_bytes()).unwrap_or(false));
    out["desc_json"] = json!(hex(js.as_bytes()));
    out["desc"] = match serde_json::from_str::<InterfaceDescription<'static>>(&js) {
        Ok(d) => {
            let raw_same = d.as_raw() == Some(d_owned.as_str());
            let mut v = match std::panic::catch_unwind(std::panic::AssertUnwindSafe(|| d.parse())) {
                Ok(Ok(i)) => json!({"class": "ok", "tree": dump_interface(&i), "lib_eq": [i == owned]}),
                Ok(Err(_)) => json!({"class": "err"}),
                Err(_) => json!({"class": "panic"}),
            };
            v["raw_same"] = json!(raw_same);
            v
        }
        Err(e) => json!({"class": "deerr", "err": e.to_string()}),
    };
    if case.get("socket").and_then(|b| b.as_bool()).unwrap_or(false) {
        out["socket"] = socket_exchange(&owned);
    }
    out
}

fn main() {
    std::panic::set_hook(Box::new(|_| {}));
    let stdin = std::io::stdin();
    let stdout = std::io::stdout();
    let mut out = stdout.lock();
    for line in stdin.lock().lines() {
        let line = line.unwrap();
        if line.trim().is_empty() {
            continue;
        }
        let case: Value = serde_json::from_str(&line).unwrap();
        let mut res = match case["op"].as_str().unwrap_or("parse") {
            "parse" => op_parse(&case),
            "seq" => op_seq(&case),
            "build" => std::panic::catch_unwind(|| op_build(&case))
                .unwrap_or_else(|_| json!({"class": "harness-panic"})),
            o => json!({"error": format!("unknown op {o}")}),
        };
        res["id"] = case["id"].clone();
        writeln!(out, "{}", res).unwrap();
    }
}
