//! Receive-side harness (C01, C07, C17 inbound): runs receive operations of a real
//! `Connection` on a scripted socket, poll by poll, with optional cancellation.
//! stdin: one JSON case per line; stdout: one JSON result per line.
use serde::Deserialize;
use serde_json::{json, Value};
use std::io::{BufRead, Write};
use std::task::Poll;
use zlink_core::{Call, Connection, ReplyError};
use zv::*;

#[derive(Debug, Deserialize)]
#[serde(tag = "method", content = "parameters")]
#[allow(dead_code)]
enum Strict {
    #[serde(rename = "org.example.Get")]
    Get { id: u32 },
    #[serde(rename = "org.example.Put")]
    Put { name: String, value: i64 },
    #[serde(rename = "org.example.Ping")]
    Ping,
}

#[derive(Debug, Deserialize)]
#[serde(tag = "method", content = "parameters")]
#[allow(dead_code)]
enum Borrowed<'a> {
    #[serde(rename = "org.example.Put")]
    Put { name: &'a str, value: i64 },
    #[serde(rename = "org.example.Ping")]
    Ping,
}

#[derive(Debug, Deserialize)]
#[allow(dead_code)]
struct Lenient {
    method: Option<String>,
    parameters: Option<Value>,
}

#[derive(Debug, Deserialize)]
#[allow(dead_code)]
struct RP {
    id: u32,
    #[serde(default)]
    note: Option<String>,
}

#[derive(Debug, ReplyError)]
#[zlink(interface = "org.example", crate = "zlink_core")]
#[allow(dead_code)]
enum RE {
    NotFound { id: u32 },
    Busy,
}

/// the call sent by the `callm_*` targets (Connection::call_method = send_call + receive_reply)
#[derive(Debug, serde::Serialize)]
#[serde(tag = "method", content = "parameters")]
enum OutCall {
    #[serde(rename = "org.example.Get")]
    Get { id: u32 },
}

fn dec_call<'a, M: Deserialize<'a> + std::fmt::Debug>(seg: &'a [u8]) -> String {
    match serde_json::from_slice::<Call<M>>(seg) {
        Ok(c) => format!("ok:{}", digest(&format!("{:?}", c))),
        Err(_) => "err:json".into(),
    }
}

fn dec_reply<'a, P: Deserialize<'a> + std::fmt::Debug>(seg: &'a [u8]) -> String {
    // a reply is a JSON object (C04): serde's derived visitors would also take sequence forms
    if seg.iter().find(|b| !b" \t\r\n".contains(b)) != Some(&b'{') {
        return "err:json".into();
    }
    if let Ok(e) = serde_json::from_slice::<zlink_core::varlink_service::Error>(seg) {
        return format!("vs:{}", digest(&format!("{:?}", e)));
    }
    if let Ok(e) = serde_json::from_slice::<RE>(seg) {
        return format!("merr:{}", digest(&format!("{:?}", e)));
    }
    match serde_json::from_slice::<zlink_core::Reply<P>>(seg) {
        Ok(r) => format!("ok:{}", digest(&format!("{:?}", r))),
        Err(_) => "err:json".into(),
    }
}

fn oracle(target: &str, seg: &[u8]) -> String {
    // a JSON document is UTF-8 text (RFC 8259 8.1); serde_json::from_slice alone does not look into the
    // strings the target type ignores
    if std::str::from_utf8(seg).is_err() {
        return "err:json".into();
    }
    match target {
        "call_strict" => dec_call::<Strict>(seg),
        "call_borrowed" => dec_call::<Borrowed>(seg),
        "call_lenient" => dec_call::<Lenient>(seg),
        "call_value" => dec_call::<Value>(seg),
        "rh_call_strict" => dec_call::<Strict>(seg),
        "reply_typed" | "callm_typed" | "rh_reply_typed" => dec_reply::<RP>(seg),
        "reply_value" | "callm_value" => dec_reply::<Value>(seg),
        t => panic!("unknown target {t}"),
    }
}

macro_rules! run_ops {
    ($case:expr, $c:ident => $mk:expr, $fmt:expr) => {{
        let case: &Value = $case;
        let n = case["n"].as_u64().unwrap() as usize;
        let cancel: Vec<u64> = case
            .get("cancel")
            .and_then(|c| c.as_array())
            .map(|a| a.iter().map(|x| x.as_u64().unwrap()).collect())
            .unwrap_or_default();
        let (sock, sh) = SSocket::new(parse_events(&case["events"]));
        let mut $c = Connection::new(sock);
        // "rejoin": the connection is split into its halves and joined again between any two
        // receive futures (the model has no counterpart: split/join must not touch the read state)
        let rejoin = case.get("rejoin").and_then(|x| x.as_bool()).unwrap_or(false);
        let mut ops = Vec::new();
        let mut polls: u64 = 0;
        let mut cancels = 0u64;
        let mut stuck = false;
        'ops: for _ in 0..n {
            loop {
                // one incarnation of the receive future
                let res: Option<String> = {
                    let fut = $mk;
                    let mut fut = std::pin::pin!(fut);
                    loop {
                        match poll_once(fut.as_mut()) {
                            Poll::Ready(r) => break Some($fmt(r)),
                            Poll::Pending => {
                                polls += 1;
                                if sh.borrow().exhausted {
                                    stuck = true;
                                    break None;
                                }
                                if cancel.contains(&polls) {
                                    cancels += 1;
                                    break None;
                                }
                            }
                        }
                    }
                };
                if stuck {
                    break 'ops;
                }
                if rejoin {
                    let (r, w) = $c.split();
                    $c = Connection::join(r, w);
                }
                if let Some(r) = res {
                    #[cfg(zlink_verif)]
                    let st = {
                        let (rp, mp, cap) = $c.read().verif_state();
                        json!([cap, mp, rp])
                    };
                    // built without the hook cfg (production buffer limit): results only
                    #[cfg(not(zlink_verif))]
                    let st = Value::Null;
                    ops.push(json!({"res": r, "st": st}));
                    break;
                }
                // cancelled: start a new receive
            }
        }
        let reads = sh.borrow().reads;
        json!({"ops": ops, "stuck": stuck, "polls": polls, "cancels": cancels, "reads": reads})
    }};
}

fn fmt_call<M: std::fmt::Debug>(r: zlink_core::Result<Call<M>>) -> String {
    match r {
        Ok(c) => format!("ok:{}", digest(&format!("{:?}", c))),
        Err(e) => err_name(&e),
    }
}

fn fmt_reply<P: std::fmt::Debug>(
    r: zlink_core::Result<zlink_core::reply::Result<P, RE>>,
) -> String {
    match r {
        Ok(Ok(r)) => format!("ok:{}", digest(&format!("{:?}", r))),
        Ok(Err(e)) => format!("merr:{}", digest(&format!("{:?}", e))),
        Err(e) => err_name(&e),
    }
}

fn run_case(case: &Value) -> Value {
    let target = case["target"].as_str().unwrap().to_string();
    let mut out = match target.as_str() {
        "call_strict" => {
            run_ops!(case, c => c.receive_call::<Strict>(), fmt_call)
        }
        "call_borrowed" => {
            run_ops!(case, c => c.receive_call::<Borrowed>(), fmt_call)
        }
        "call_lenient" => {
            run_ops!(case, c => c.receive_call::<Lenient>(), fmt_call)
        }
        "call_value" => {
            run_ops!(case, c => c.receive_call::<Value>(), fmt_call)
        }
        "reply_typed" => {
            run_ops!(case, c => c.receive_reply::<RP, RE>(), fmt_reply)
        }
        "reply_value" => {
            run_ops!(case, c => c.receive_reply::<Value, RE>(), fmt_reply)
        }
        // the same operations entered through the read half
        "rh_call_strict" => {
            run_ops!(case, c => c.read_mut().receive_call::<Strict>(), fmt_call)
        }
        "rh_reply_typed" => {
            run_ops!(case, c => c.read_mut().receive_reply::<RP, RE>(), fmt_reply)
        }
        // the convenience wrapper: every incarnation sends the call again, then receives
        "callm_typed" => {
            let call = Call::new(OutCall::Get { id: 7 });
            run_ops!(case, c => c.call_method::<OutCall, RP, RE>(&call), fmt_reply)
        }
        "callm_value" => {
            let call = Call::new(OutCall::Get { id: 7 });
            run_ops!(case, c => c.call_method::<OutCall, Value, RE>(&call), fmt_reply)
        }
        t => panic!("unknown target {t}"),
    };
    // decode oracle: every maximal NUL-free segment of the payload, decoded in isolation
    let mut payload = Vec::new();
    for e in parse_events(&case["events"]) {
        if let Ev::Data(d) = e {
            payload.extend_from_slice(&d);
        }
    }
    let mut segs = serde_json::Map::new();
    if case.get("no_oracle").is_none() {
        for seg in payload.split(|b| *b == 0) {
            let k = hex(seg);
            if !segs.contains_key(&k) {
                segs.insert(k, Value::String(oracle(&target, seg)));
            }
        }
    }
    out["segs"] = Value::Object(segs);
    out["id"] = case["id"].clone();
    out
}

fn main() {
    let stdin = std::io::stdin();
    let stdout = std::io::stdout();
    let mut w = std::io::BufWriter::new(stdout.lock());
    for line in stdin.lock().lines() {
        let line = line.unwrap();
        if line.trim().is_empty() {
            continue;
        }
        let case: Value = serde_json::from_str(&line).unwrap();
        let r = std::panic::catch_unwind(|| run_case(&case));
        let out = match r {
            Ok(mut v) => {
                // polls that returned Pending without a pending transport and without a wake
                v["lost_wakeups"] = json!(zv::take_lost_wakeups());
                v
            }
            Err(_) => {
                zv::take_lost_wakeups();
                json!({"id": case["id"], "panic": true})
            }
        };
        writeln!(w, "{}", out).unwrap();
    }
}
