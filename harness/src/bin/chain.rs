//! Chain harness (C06): sends a chain of calls with given flags over a scripted socket, polls the
//! reply stream to its end, then performs further receives on the same connection.
use futures_util::StreamExt;
use serde::{Deserialize, Serialize};
use serde_json::{json, Value};
use std::io::{BufRead, Write};
use std::task::Poll;
use zlink_core::{Call, Connection, ReplyError};
use zv::*;

#[derive(Debug, Serialize)]
#[serde(tag = "method", content = "parameters")]
enum Method {
    #[serde(rename = "org.example.Get")]
    Get { id: u32, pad: String },
}

#[derive(Debug, Deserialize)]
#[allow(dead_code)]
struct RP {
    id: u32,
    #[serde(default)]
    note: Option<String>,
}

#[derive(Debug, ReplyError)]
#[zlink(interface = "org.example", crate = "zlink_core")]
#[allow(dead_code)]
enum RE {
    NotFound { id: u32 },
    Busy,
}

fn fmt_item<P: std::fmt::Debug>(r: &zlink_core::Result<zlink_core::reply::Result<P, RE>>) -> String {
    match r {
        Ok(Ok(r)) if r.continues() == Some(true) => format!("okc:{}", digest(&format!("{:?}", r))),
        Ok(Ok(r)) => format!("ok:{}", digest(&format!("{:?}", r))),
        Ok(Err(e)) => format!("merr:{}", digest(&format!("{:?}", e))),
        Err(e) => err_name(e),
    }
}

fn oracle<'a, P: Deserialize<'a> + std::fmt::Debug>(seg: &'a [u8]) -> String {
    // a JSON document is UTF-8 text (RFC 8259 8.1)
    if std::str::from_utf8(seg).is_err() {
        return "err:json".into();
    }
    if let Ok(e) = serde_json::from_slice::<zlink_core::varlink_service::Error>(seg) {
        return format!("vs:{}", digest(&format!("{:?}", e)));
    }
    if let Ok(e) = serde_json::from_slice::<RE>(seg) {
        return format!("merr:{}", digest(&format!("{:?}", e)));
    }
    match serde_json::from_slice::<zlink_core::Reply<P>>(seg) {
        Ok(r) if r.continues() == Some(true) => format!("okc:{}", digest(&format!("{:?}", r))),
        Ok(r) => format!("ok:{}", digest(&format!("{:?}", r))),
        Err(_) => "err:json".into(),
    }
}

fn block<F: std::future::Future>(f: F) -> Option<F::Output> {
    let mut f = std::pin::pin!(f);
    for _ in 0..1000 {
        if let Poll::Ready(r) = poll_once(f.as_mut()) {
            return Some(r);
        }
    }
    None
}

/// The transport script of a case: given event by event, or generated ("gen": {"n", "burst"}):
/// n replies `{"parameters":{"id":i}}` in bursts of `burst` replies per read, then one unrelated
/// frame (id 7000000), then end-of-file. Flags may likewise be generated ("gen_flags": n plain calls).
fn events_of(case: &Value) -> std::collections::VecDeque<Ev> {
    if let Some(g) = case.get("gen") {
        let n = g["n"].as_u64().unwrap() as usize;
        let burst = g["burst"].as_u64().unwrap().max(1) as usize;
        let mut evs = std::collections::VecDeque::new();
        let mut cur: Vec<u8> = Vec::new();
        for i in 0..n {
            cur.extend_from_slice(format!("{{\"parameters\":{{\"id\":{}}}}}\0", i).as_bytes());
            if (i + 1) % burst == 0 {
                evs.push_back(Ev::Data(std::mem::take(&mut cur)));
            }
        }
        cur.extend_from_slice(b"{\"parameters\":{\"id\":7000000}}\0");
        evs.push_back(Ev::Data(cur));
        evs.push_back(Ev::Eof);
        evs
    } else {
        parse_events(&case["events"])
    }
}

macro_rules! run_chain {
    ($case:expr, $P:ty) => {{
        let case: &Value = $case;
        let flags: Vec<String> = match case.get("gen_flags").and_then(|n| n.as_u64()) {
            Some(n) => vec!["plain".to_string(); n as usize],
            None => case["flags"].as_array().unwrap().iter().map(|f| f.as_str().unwrap().to_string()).collect(),
        };
        let after = case["after"].as_u64().unwrap_or(0) as usize;
        let (sock, sh) = SSocket::new(events_of(case));
        let mut conn = Connection::new(sock);
        let pads: Vec<usize> = case.get("pads").and_then(|p| p.as_array())
            .map(|a| a.iter().map(|x| x.as_u64().unwrap() as usize).collect()).unwrap_or_default();
        let calls: Vec<Call<Method>> = flags
            .iter()
            .enumerate()
            .map(|(i, f)| {
                let c = Call::new(Method::Get { id: i as u32, pad: "p".repeat(*pads.get(i).unwrap_or(&0)) });
                match f.as_str() {
                    "oneway" => c.set_oneway(true),
                    "more" => c.set_more(true),
                    // both flags: oneway wins, nothing is owed
                    "both" => c.set_more(true).set_oneway(true),
                    _ => c,
                }
            })
            .collect();
        let expected_write: Vec<u8> = calls.iter().flat_map(|c| {
            let mut v = serde_json::to_vec(c).unwrap();
            v.push(0);
            v
        }).collect();
        let mut items = Vec::new();
        let mut ended = false;
        let mut stuck = false;
        let max_items = case.get("max_items").and_then(|m| m.as_u64()).unwrap_or(5000) as usize;
        // "slim": long chains — report counts and digests instead of every item and byte
        let slim = case.get("slim").and_then(|m| m.as_bool()).unwrap_or(false);
        let mut send_err = Value::Null;
        let mut reads_at_end = 0usize;
        {
            let mut chain = conn.chain_call::<Method, $P, RE>(&calls[0]).unwrap();
            for c in &calls[1..] {
                chain = chain.append(c).unwrap();
            }
            match block(chain.send()).unwrap() {
                Err(e) => send_err = Value::String(err_name(&e)),
                Ok(stream) => {
                    let mut stream = std::pin::pin!(stream);
                    'outer: for _ in 0..max_items {
                        loop {
                            let mut nx = stream.next();
                            match poll_once(std::pin::Pin::new(&mut nx)) {
                                Poll::Ready(None) => {
                                    ended = true;
                                    reads_at_end = sh.borrow().reads;
                                    break 'outer;
                                }
                                Poll::Ready(Some(r)) => {
                                    let s = fmt_item(&r);
                                    drop(r);
                                    items.push(json!({"res": s, "reads": sh.borrow().reads}));
                                    break;
                                }
                                Poll::Pending => {
                                    if sh.borrow().exhausted {
                                        stuck = true;
                                        break 'outer;
                                    }
                                }
                            }
                        }
                    }
                }
            }
        }
        let mut after_ops = Vec::new();
        if !stuck {
            'ops: for _ in 0..after {
                let fut = conn.receive_reply::<$P, RE>();
                let mut fut = std::pin::pin!(fut);
                loop {
                    match poll_once(fut.as_mut()) {
                        Poll::Ready(r) => {
                            after_ops.push(json!({"res": fmt_item(&r)}));
                            break;
                        }
                        Poll::Pending => {
                            if sh.borrow().exhausted {
                                break 'ops;
                            }
                        }
                    }
                }
            }
        }
        #[cfg(zlink_verif)]
        let final_st = {
            let (rp, mp, cap) = conn.read().verif_state();
            json!([cap, mp, rp])
        };
        #[cfg(not(zlink_verif))]
        let final_st = Value::Null;
        if slim {
            let s = sh.borrow();
            let all: Vec<u8> = s.writes.iter().flatten().copied().collect();
            let mut hist = std::collections::BTreeMap::new();
            for it in &items {
                let k = it["res"].as_str().unwrap_or("?").split(':').next().unwrap().to_string();
                *hist.entry(k).or_insert(0u64) += 1;
            }
            json!({"n_items": items.len(), "item_kinds": hist, "ended": ended, "stuck": stuck, "send_err": send_err,
                   "reads_at_end": reads_at_end, "after": after_ops, "final_st": final_st,
                   "n_writes": s.writes.len(), "write_ok": all == expected_write,
                   "first_items": items.iter().take(3).collect::<Vec<_>>(),
                   "last_items": items.iter().rev().take(3).collect::<Vec<_>>()})
        } else {
            let writes: Vec<String> = sh.borrow().writes.iter().map(|w| hex(w)).collect();
            json!({"items": items, "ended": ended, "stuck": stuck, "send_err": send_err,
                   "reads_at_end": reads_at_end, "after": after_ops, "final_st": final_st,
                   "writes": writes, "expected_write": hex(&expected_write)})
        }
    }};
}

fn run_case(case: &Value) -> Value {
    let target = case["target"].as_str().unwrap_or("typed");
    let mut out = match target {
        "typed" => run_chain!(case, RP),
        _ => run_chain!(case, Value),
    };
    let mut payload = Vec::new();
    if case.get("slim").is_none() {
        for e in events_of(case) {
            if let Ev::Data(d) = e {
                payload.extend_from_slice(&d);
            }
        }
    }
    let mut segs = serde_json::Map::new();
    for seg in payload.split(|b| *b == 0) {
        let k = hex(seg);
        if !segs.contains_key(&k) {
            let v = if target == "typed" { oracle::<RP>(seg) } else { oracle::<Value>(seg) };
            segs.insert(k, Value::String(v));
        }
    }
    out["segs"] = Value::Object(segs);
    out["id"] = case["id"].clone();
    out
}

fn main() {
    let stdin = std::io::stdin();
    let stdout = std::io::stdout();
    let mut w = std::io::BufWriter::new(stdout.lock());
    for line in stdin.lock().lines() {
        let line = line.unwrap();
        if line.trim().is_empty() {
            continue;
        }
        let case: Value = serde_json::from_str(&line).unwrap();
        let r = std::panic::catch_unwind(|| run_case(&case));
        let out = match r {
            Ok(mut v) => {
                // polls that returned Pending without a pending transport and without a wake
                v["lost_wakeups"] = json!(zv::take_lost_wakeups());
                v
            }
            Err(_) => {
                zv::take_lost_wakeups();
                json!({"id": case["id"], "panic": true})
            }
        };
        writeln!(w, "{}", out).unwrap();
    }
}
