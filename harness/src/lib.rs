//! Shared pieces of the verification harness: scripted sockets, a poll-by-poll executor,
//! hex helpers and canonical digests. Every run is a pure function of the case line.
use std::{
    cell::RefCell,
    collections::VecDeque,
    future::Future,
    hash::{Hash, Hasher},
    pin::Pin,
    rc::Rc,
    task::{Context, Poll, Waker},
};
use zlink_core::connection::socket::{ReadHalf, Socket, WriteHalf};

pub fn hex(b: &[u8]) -> String {
    let mut s = String::with_capacity(b.len() * 2);
    for x in b {
        s.push_str(&format!("{:02x}", x));
    }
    s
}

pub fn unhex(s: &str) -> Vec<u8> {
    (0..s.len() / 2)
        .map(|i| u8::from_str_radix(&s[2 * i..2 * i + 2], 16).unwrap())
        .collect()
}

/// Deterministic 64-bit digest of a string (SipHash with fixed zero keys).
pub fn digest(s: &str) -> String {
    #[allow(deprecated)]
    let mut h = std::hash::SipHasher::new();
    s.hash(&mut h);
    format!("{:016x}", h.finish())
}

thread_local! {
    /// Polls of a scripted transport (or another scripted source) that returned `Pending`.
    static PENDS: std::cell::Cell<u64> = const { std::cell::Cell::new(0) };
    /// Calls of `wake`/`wake_by_ref` on the waker handed out by `poll_once`.
    static WAKES: std::cell::Cell<u64> = const { std::cell::Cell::new(0) };
    /// Polls that returned `Pending` although no scripted source was pending in them and nobody
    /// woke the task: under a real executor such a task sleeps for ever.
    static LOST: std::cell::Cell<u64> = const { std::cell::Cell::new(0) };
}

/// A scripted source that returns `Pending` stands for a transport that keeps the waker.
pub fn note_pend() {
    PENDS.with(|c| c.set(c.get() + 1));
}

/// Number of lost wake-ups since the last call (see `LOST`).
pub fn take_lost_wakeups() -> u64 {
    LOST.with(|c| c.replace(0))
}

struct CountingWaker;
impl std::task::Wake for CountingWaker {
    fn wake(self: std::sync::Arc<Self>) {
        WAKES.with(|c| c.set(c.get() + 1));
    }
    fn wake_by_ref(self: &std::sync::Arc<Self>) {
        WAKES.with(|c| c.set(c.get() + 1));
    }
}

/// Poll a future exactly once. The waker only counts: the drivers re-poll unconditionally, but a
/// `Pending` that neither comes from a scripted source nor was preceded by a wake is recorded.
pub fn poll_once<F: Future + ?Sized>(f: Pin<&mut F>) -> Poll<F::Output> {
    thread_local! {
        static WAKER: Waker = Waker::from(std::sync::Arc::new(CountingWaker));
    }
    let (p0, w0) = (PENDS.with(|c| c.get()), WAKES.with(|c| c.get()));
    let r = WAKER.with(|w| {
        let mut cx = Context::from_waker(w);
        f.poll(&mut cx)
    });
    if r.is_pending() && PENDS.with(|c| c.get()) == p0 && WAKES.with(|c| c.get()) == w0 {
        LOST.with(|c| c.set(c.get() + 1));
    }
    r
}

#[derive(Debug, Clone)]
pub enum Ev {
    Data(Vec<u8>),
    Pend,
    Eof,
    Fail,
}

/// Parse `[["d","<hex>"],["p"],["e"],["f"]]`.
pub fn parse_events(v: &serde_json::Value) -> VecDeque<Ev> {
    v.as_array()
        .unwrap()
        .iter()
        .map(|e| {
            let a = e.as_array().unwrap();
            match a[0].as_str().unwrap() {
                "d" => Ev::Data(unhex(a[1].as_str().unwrap())),
                "p" => Ev::Pend,
                "e" => Ev::Eof,
                "f" => Ev::Fail,
                x => panic!("bad event {x}"),
            }
        })
        .collect()
}

/// What the write half does on its k-th `write` call (0-based); default: accept everything.
#[derive(Debug, Clone)]
pub enum WAct {
    Accept,
    Fail,
    /// Stay pending for this many polls, then accept.
    PendThenAccept(usize),
}

#[derive(Debug, Default)]
pub struct Script {
    pub evs: VecDeque<Ev>,
    /// Set when a read found the script empty (the driver stops or feeds more).
    pub exhausted: bool,
    pub reads: usize,
    /// Number of read calls that returned data (> 0 bytes).
    pub data_reads: usize,
    pub writes: Vec<Vec<u8>>,
    pub wacts: VecDeque<WAct>,
    pub wpending: usize,
    pub write_calls: usize,
}

pub type Shared = Rc<RefCell<Script>>;

#[derive(Debug)]
pub struct SSocket(pub Shared);
#[derive(Debug)]
pub struct SRead(pub Shared);
#[derive(Debug)]
pub struct SWrite(pub Shared);

impl SSocket {
    pub fn new(evs: VecDeque<Ev>) -> (Self, Shared) {
        let sh = Rc::new(RefCell::new(Script {
            evs,
            ..Default::default()
        }));
        (SSocket(sh.clone()), sh)
    }
}

impl Socket for SSocket {
    type ReadHalf = SRead;
    type WriteHalf = SWrite;
    fn split(self) -> (SRead, SWrite) {
        (SRead(self.0.clone()), SWrite(self.0))
    }
}

impl ReadHalf for SRead {
    fn read(&mut self, buf: &mut [u8]) -> impl Future<Output = zlink_core::Result<usize>> {
        let sh = self.0.clone();
        std::future::poll_fn(move |_cx| {
            let mut s = sh.borrow_mut();
            s.reads += 1;
            if buf.is_empty() {
                return Poll::Ready(Ok(0));
            }
            match s.evs.pop_front() {
                None => {
                    s.exhausted = true;
                    note_pend();
                    Poll::Pending
                }
                Some(Ev::Pend) => {
                    note_pend();
                    Poll::Pending
                }
                Some(Ev::Eof) => {
                    s.evs.push_front(Ev::Eof);
                    Poll::Ready(Ok(0))
                }
                Some(Ev::Fail) => Poll::Ready(Err(zlink_core::Error::SocketRead)),
                Some(Ev::Data(d)) => {
                    if d.is_empty() {
                        s.evs.push_front(Ev::Data(d));
                        return Poll::Ready(Ok(0));
                    }
                    let n = d.len().min(buf.len());
                    buf[..n].copy_from_slice(&d[..n]);
                    if n < d.len() {
                        s.evs.push_front(Ev::Data(d[n..].to_vec()));
                    }
                    s.data_reads += 1;
                    Poll::Ready(Ok(n))
                }
            }
        })
    }
}

impl WriteHalf for SWrite {
    fn write(&mut self, buf: &[u8]) -> impl Future<Output = zlink_core::Result<()>> {
        let sh = self.0.clone();
        let mut started = false;
        let mut act = WAct::Accept;
        std::future::poll_fn(move |_cx| {
            let mut s = sh.borrow_mut();
            if !started {
                started = true;
                s.write_calls += 1;
                act = s.wacts.pop_front().unwrap_or(WAct::Accept);
            }
            match &mut act {
                WAct::Accept => {
                    s.writes.push(buf.to_vec());
                    Poll::Ready(Ok(()))
                }
                WAct::Fail => Poll::Ready(Err(zlink_core::Error::SocketWrite)),
                WAct::PendThenAccept(k) => {
                    if *k == 0 {
                        s.writes.push(buf.to_vec());
                        Poll::Ready(Ok(()))
                    } else {
                        *k -= 1;
                        s.wpending += 1;
                        note_pend();
                        Poll::Pending
                    }
                }
            }
        })
    }
}

/// Canonical name of a zlink error.
pub fn err_name(e: &zlink_core::Error) -> String {
    use zlink_core::Error as E;
    match e {
        E::SocketRead | E::SocketWrite | E::Io(_) => "err:io".into(),
        E::BufferOverflow => "err:overflow".into(),
        E::Json(_) => "err:json".into(),
        E::UnexpectedEof => "err:eof".into(),
        E::VarlinkService(v) => format!("vs:{}", digest(&format!("{:?}", v))),
        E::MissingParameters => "err:missing".into(),
        other => format!("err:other:{:?}", other),
    }
}
